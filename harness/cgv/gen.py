"""Input families.

* TLC-enumerated families (G1, G2, W) come from spec/GenCircuits.tla: `family(name, scratch)` runs TLC and
  returns the list of indexed circuits (dicts).
* G3: seeded random lint-clean circuits built directly on the graph (never through code under test paths
  that a mutant could break in a way that hides the mutant: generation uses networkx only).
"""
import json
import os
import random

import networkx as nx

from . import tlc
from .proj import build

GATES1 = ["buf", "not"]
GATESN = ["and", "nand", "or", "nor", "xor", "xnor"]
GATES = GATES1 + GATESN

_cache = {}


def family(name, scratch):
    """Run TLC on GenCircuits for family `name`; returns list of indexed circuits (dicts)."""
    if name in _cache:
        return _cache[name]
    out = os.path.join(scratch, "fam_%s.ndjson" % name)
    if not os.path.exists(out):
        r = tlc.run_tlc("GenCircuits", "GenCircuits", workers=1, timeout=300,
                        env={"GEN_FAMILY": name, "GEN_OUT": out}, scratch=scratch)
        if not r["ok"] or not os.path.exists(out):
            raise tlc.MachineryError("GenCircuits %s failed:\n%s" % (name, r["out"][-2000:]))
    with open(out) as f:
        res = [json.loads(l) for l in f if l.strip()]
    _cache[name] = res
    return res


def has_type(p, t):
    return t in p["ty"]


def rand_dag(rng, n_in=None, n_gates=None, consts=0.15, xconst=0.0, max_fanin=4, extra_out=0.2,
             out_is_input=0.1, types=None, names=None, loaded_in_out=0.0):
    """Random lint-clean acyclic blackbox-free circuit as a networkx graph (+ name).

    Every sink is an output (no dead logic); some internal nodes and some inputs are outputs too.
    Every input drives something or is an output (so that nothing is unloaded unless it is an output).
    """
    types = types or GATES
    n_in = n_in if n_in is not None else rng.randint(1, 5)
    n_gates = n_gates if n_gates is not None else rng.randint(2, 14)
    g = nx.DiGraph()
    pool = []
    for i in range(n_in):
        nm = names[i] if names else "i%d" % i
        g.add_node(nm, type="input", output=False)
        pool.append(nm)
    for t in ("0", "1", "x"):
        p = xconst if t == "x" else consts
        if rng.random() < p:
            nm = "k" + t
            g.add_node(nm, type=t, output=False)
            pool.append(nm)
    for j in range(n_gates):
        t = rng.choice(types)
        nm = "n%d" % j
        if t in GATES1:
            k = 1
        else:
            k = min(len(pool), rng.choice([1, 2, 2, 2, 3, 3, 4][: max(1, max_fanin + 2)] + list(range(5, max_fanin + 1))))
            k = max(1, min(k, max_fanin))
        # bias towards recent nodes to get depth
        cand = pool[-6:] if rng.random() < 0.6 and len(pool) > 6 else pool
        fis = rng.sample(cand, min(k, len(cand)))
        g.add_node(nm, type=t, output=False)
        for f in fis:
            g.add_edge(f, nm)
        pool.append(nm)
    for n in list(g.nodes):
        if g.out_degree(n) == 0:
            if g.nodes[n]["type"] in ("0", "1", "x"):
                g.remove_node(n)
                continue
            if g.nodes[n]["type"] == "input" and rng.random() > out_is_input and g.number_of_nodes() > 1:
                # unloaded input: give it a load rather than leaving it dangling
                tgt = [m for m in g.nodes if g.nodes[m]["type"] in GATESN and g.in_degree(m) < max_fanin]
                if tgt:
                    g.add_edge(n, rng.choice(tgt))
                    continue
            g.nodes[n]["output"] = True
        elif g.nodes[n]["type"] in GATES and rng.random() < extra_out:
            g.nodes[n]["output"] = True
        elif g.nodes[n]["type"] == "input" and loaded_in_out and rng.random() < loaded_in_out:
            g.nodes[n]["output"] = True      # a primary input that feeds logic AND is a primary output
    if not any(g.nodes[n]["output"] for n in g.nodes):
        last = list(g.nodes)[-1]
        g.nodes[last]["output"] = True
    return g


def rand_circuit(rng, **kw):
    import circuitgraph as cg

    name = kw.pop("name", "rc")
    return cg.Circuit(name=name, graph=rand_dag(rng, **kw))


def add_flops(rng, c, n_flops=1, bbtype=None, others=True, d="d", q="q"):
    """Turn a combinational circuit into a sequential one by inserting flop blackboxes built directly
    on the graph: each flop's d pin is driven by an existing node, its q pin drives a new buf that is
    added to the fan-in of some multi-input gate (or marked output)."""
    import circuitgraph as cg

    bb = bbtype or cg.BlackBox("ff", ["clk", "d"], ["q"])
    g = c.graph
    nodes = [n for n in g.nodes if g.nodes[n].get("type") not in ("bb_input", "bb_output")]
    if "clk" in bb.inputs() and "clk" not in g:
        g.add_node("clk", type="input", output=False)
    for p in sorted(bb.inputs() - {d, "clk"}):          # other input pins: driven by a primary input named like the pin
        if p not in g:
            g.add_node(p, type="input", output=False)
    for k in range(n_flops):
        inst = "ff%d" % k
        c.blackboxes[inst] = bb
        for p in bb.inputs():
            g.add_node("%s.%s" % (inst, p), type="bb_input", output=False)
        for p in bb.outputs():
            g.add_node("%s.%s" % (inst, p), type="bb_output", output=False)
        src = rng.choice(nodes)
        g.add_edge(src, inst + "." + d)
        if "clk" in bb.inputs():
            g.add_edge("clk", inst + ".clk")
        for p in sorted(bb.inputs() - {d, "clk"}):
            g.add_edge(p, inst + "." + p)
        qn = "q%d" % k
        g.add_node(qn, type="buf", output=False)
        g.add_edge(inst + "." + q, qn)
        tgts = [m for m in nodes if g.nodes[m]["type"] in GATESN and not nx.has_path(g, m, src)]
        if tgts and rng.random() < 0.85:
            g.add_edge(qn, rng.choice(tgts))
        else:
            g.nodes[qn]["output"] = True
    return c


def from_family(p):
    return build(p)


def rng_for(seed, *salt):
    return random.Random("%s/%s" % (seed, "/".join(str(s) for s in salt)))

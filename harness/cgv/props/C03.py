"""C03 - Verilog write -> read round trip preserves the circuit."""
import copy
import os

from ..proj import build, proj
from . import C01

ID = "C03"
LEVEL = "model_checking"
RULE = ("circuit_to_verilog then verilog_to_circuit (both styles) and to_file/from_file on TLC-enumerated G1 (incl. constants "
        "0/1/x) and G2 (seeded slice in quick), random DAGs with constants, outputs that are inputs or constants, flop "
        "blackboxes with unconnected output pins, escaped identifiers, names resembling the writer's instance names (g_<k>) "
        "and the reader's gate names; several hash seeds (they fix port, wire and operand order). TLC judges (CGNetlist!"
        "Judge_v_roundtrip): same name / inputs / outputs / instances with the same net on every pin, Kleene-equal function "
        "at every output and blackbox input pin; identical graph for the gate-primitive form without constants. distinct = "
        "distinct events; non-trivial = circuit has a multi-input gate, a constant or a blackbox")
ASSUMPTIONS = ["node names are legal Verilog identifiers (plain or escaped), not keywords, not tie_0/tie_1/tie_x (as the property states)"]


def config(tier):
    q = tier == "quick"
    return {
        "hashseeds": [0, 1] if q else [0, 1, 2, 3, 4, 5, 6, 7],
        "families": ["G1", "G2"],
        "mc": [{"module": "MCVerilogIO", "cfg": "MCVerilogIO", "workers": 4, "timeout": 900},
               {"module": "MCExprReader", "cfg": "MCBehavioural", "workers": 4, "timeout": 900}],
        "shards": 8 if q else 16,
        "negctl": 12,
    }


ESC = {"i0": "\\i[0]", "i1": "\\a.b", "n0": "\\n$0", "n1": "\\out[1]"}
GK = {"i0": "g_0", "n0": "g_1", "n1": "g_2", "i1": "not_i0", "n2": "and_i0_i1"}


def circuits(ctx):
    rng = ctx.rng("C03")
    g1 = ctx.family("G1")
    for i, p in enumerate(g1):
        if not ctx.quick or i % 6 == ctx.seed % 6:
            yield "G1", p
    g2 = ctx.family("G2")
    for p in (rng.sample(g2, 70) if ctx.quick else g2):
        yield "G2", p
    from .. import gen
    import networkx as nx
    from ..proj import proj_graph

    # an internal gate read by an inverter AND by other gates, under many names: the order in which the writer lists the
    # statements (a set's order) decides whether the inverter is read before or after the other readers
    pool = ["x", "y", "z", "w", "p", "q", "m", "k", "u", "v", "s", "t", "net1", "net2", "net3", "n_4", "sig", "tmp", "e", "f"]
    for j in range(24 if ctx.quick else 200):
        r = ctx.rng("C03inv", j)
        a, b, c0, x, y, z, w = r.sample(pool, 7)
        g = nx.DiGraph()
        for n in (a, b, c0):
            g.add_node(n, type="input", output=False)
        g.add_node(x, type=r.choice(["and", "or", "xor", "nand", "nor", "xnor"]), output=False)
        g.add_node(y, type="not", output=True)
        g.add_node(z, type=r.choice(["and", "or", "xor"]), output=True)
        g.add_node(w, type=r.choice(["buf", "nand", "xnor"]), output=True)
        g.add_edges_from([(a, x), (b, x), (x, y), (x, z), (c0, z), (x, w)])
        if g.nodes[w]["type"] != "buf":
            g.add_edge(a, w)
        yield "INVFOLD", proj_graph(g, "invfold")
    # operand names whose `_`-joins coincide (a & b_a  and  a_b & a both spell and_a_b_a) on inverting / wide gates, which the
    # behavioural form writes as expressions with an inner gate the reader has to name
    for j in range(16 if ctx.quick else 120):
        r = ctx.rng("C03join", j)
        g = nx.DiGraph()
        for n in ("a", "b_a", "a_b", "b", "c"):
            g.add_node(n, type="input", output=False)
        t1, t2 = r.choice([("nand", "nand"), ("nor", "nor"), ("xnor", "xnor"), ("and", "and"), ("nand", "and")])
        o1, o2 = r.sample(["r1", "r2", "y", "z", "q"], 2)
        g.add_node(o1, type=t1, output=True)
        g.add_node(o2, type=t2, output=True)
        g.add_edges_from([("a", o1), ("b_a", o1), ("a_b", o2), ("a", o2)])
        if r.random() < 0.5:
            g.add_edges_from([("c", o1), ("c", o2)])
        yield "JOIN", proj_graph(g, "join")
    # one net on two input pins of one instance
    for j in range(6 if ctx.quick else 40):
        r = ctx.rng("C03pins", j)
        import circuitgraph as cg

        c = gen.rand_circuit(r, n_in=r.randint(2, 3), n_gates=r.randint(2, 5), max_fanin=3)
        nets = sorted(c.nodes())
        rs = r.choice(nets)
        g = c.graph
        g.add_node("ffq", type="buf", output=True)
        c.blackboxes["u_sr"] = cg.BlackBox("srff", ["R", "S", "CK"], ["Q"])
        for pn in ("R", "S", "CK"):
            g.add_node("u_sr." + pn, type="bb_input", output=False)
        g.add_node("u_sr.Q", type="bb_output", output=False)
        g.add_edges_from([(rs, "u_sr.R"), (rs, "u_sr.S"), (r.choice(nets), "u_sr.CK"), ("u_sr.Q", "ffq")])
        yield "PINS", proj(c)
    for j in range(80 if ctx.quick else 2000):
        r = ctx.rng("C03g3", j)
        c = gen.rand_circuit(r, n_in=r.randint(1, 4), n_gates=r.randint(1, 9), max_fanin=4, consts=0.3, xconst=0.15, out_is_input=0.3, loaded_in_out=0.15)
        kind = j % 4
        if kind == 1 or (kind == 2 and j % 8 == 2):
            gen.add_flops(r, c, r.randint(1, 2))
            if r.random() < 0.5:   # an unconnected output pin
                import circuitgraph as cg

                c.blackboxes["ff0"] = cg.BlackBox("ff", ["clk", "d"], ["q", "qn"])
                for k in c.blackboxes:
                    c.blackboxes[k] = c.blackboxes["ff0"]
                    c.graph.add_node(k + ".qn", type="bb_output", output=False)
        if kind == 2:
            nx.relabel_nodes(c.graph, {k: v for k, v in ESC.items() if k in c.graph}, copy=False)
        elif kind == 3:
            nx.relabel_nodes(c.graph, {k: v for k, v in GK.items() if k in c.graph}, copy=False)
        # a constant that is an output
        if r.random() < 0.2:
            c.graph.add_node("kout", type=r.choice(["0", "1"]), output=True)
        yield "G3", proj(c)


def cases(ctx):
    for k, (src, p) in enumerate(circuits(ctx)):
        for beh in (False, True):
            yield {"op": "v_roundtrip", "c": p, "behavioral": beh, "file": (k % 5 == 0), "noname": (k % 10 == 0), "src": src}


def run_case(case, ctx):
    import circuitgraph as cg

    c = build(case["c"], case.get("ord"))
    bbs = list({id(b): b for b in c.blackboxes.values()}.values())
    exc, c2, text = "", None, None
    try:
        if case["file"]:
            odd = case.get("noname") and not case["behavioral"]
            path = os.path.join(ctx.scratch, "rt_%d_%d.%s" % (os.getpid(), ctx.hashseed, "bench" if odd else "v"))
            cg.to_file(c, path, behavioral=case["behavioral"])
            with open(path) as fh:
                text = fh.read()
            if case.get("noname"):
                # the file is not called like the module: the module (and the circuit) keeps its own name
                # (sometimes from a file whose suffix says bench: the explicit fmt "overrides the extension")
                c2 = cg.from_file(path, fmt="verilog", name=c.name, blackboxes=bbs) if odd else cg.from_file(path, blackboxes=bbs)
            else:
                c2 = cg.from_file(path, name=c.name, blackboxes=bbs)
            os.remove(path)
        else:
            cg.io.circuit_to_verilog(c, behavioral=not case["behavioral"])
            text = cg.io.circuit_to_verilog(c, behavioral=case["behavioral"])
            c2 = cg.io.verilog_to_circuit(text, c.name, blackboxes=bbs)
    except Exception as e:
        exc = type(e).__name__
    p = case["c"]
    nt = any(len(f) > 1 for f in p["fi"]) or bool(p["bbs"]) or any(t in ("0", "1", "x") for t in p["ty"])
    ev = {"kind": "v_roundtrip", "c": p, "c2": proj(c2) if c2 is not None else {}, "behavioral": case["behavioral"], "exc": exc,
          "nontrivial": nt}
    if text is not None and not exc:
        # the abstract syntax of the text the writer really produced (binding of the writer / reader models; drift only)
        import re as _re
        from .. import vlog

        bbt = [{"type": b.name, "ins": sorted(b.inputs()), "outs": sorted(b.outputs())} for b in bbs]
        wp = vlog.parse_writer_text(text, bbt)
        if wp is not None:
            ev["wp"] = wp
            ev["idents"] = sorted(set(_re.findall(r"\\\S+|[A-Za-z_][A-Za-z_0-9$]*", text)))
    return ev


def negctl(e, rng):
    if e["exc"] or not e["c2"] or "x" in e["c"]["ty"]:
        return []
    c2 = copy.deepcopy(e["c2"])
    flip = {"and": "nand", "nand": "and", "or": "nor", "nor": "or", "xor": "xnor", "xnor": "xor", "not": "buf", "buf": "not"}
    outs = [i for i, (t, o) in enumerate(zip(c2["ty"], c2["out"])) if o and t in flip and c2["fi"][i]]
    if not outs:
        return []
    i = rng.choice(outs)
    c2["ty"][i] = flip[c2["ty"][i]]
    c = dict(e)
    c["c2"] = c2
    c["corruption"] = "output gate %s inverted in the circuit read back" % c2["names"][i]
    return [c]

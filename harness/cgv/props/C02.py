"""C02 - the Verilog parser yields the circuit the netlist denotes."""
import copy

from ..proj import proj
from .. import vlog

ID = "C02"
LEVEL = "model_checking"
RULE = ("Programs of the supported structural subset are generated as abstract syntax (seeded): input/output/wire "
        "declarations in any order and grouping, primitive instances (several per statement, constants as terminals), "
        "assigns over ~ ! & | ^ ~^ ^~ ?: with every nesting to depth 3 incl. repeated sub-expressions and 1-bit constants, "
        "named-port blackbox instances with connected, unconnected (.p()) and omitted pins; statement order is a random "
        "permutation (use before definition); net names from plain / parser-synthetic-looking (not_a, and_a_b, tie0 ...) / "
        "escaped pools; text produced by the harness unparser with minimal parentheses plus seeded redundant ones, blanks, "
        "tabs, newlines, // and /* */ comments. TLC judges the parsed circuit against the denotation Den(program) computed "
        "in the specification (CGNetlist): declared io exactly, every driven net present with its Kleene truth table, "
        "every instance and pin net; programs whose port list disagrees with the declarations must be rejected. "
        "distinct = distinct events; non-trivial = program has an operator expression or a blackbox")
ASSUMPTIONS = ["the unparser (harness/cgv/vlog.py) is trusted to render the abstract syntax faithfully",
               "shapes the grammar rejects loudly (a unary operator directly on a unary operator, ?: below another operator) are never emitted",
               "x constants are not placed in the select cone of ?: (Verilog X-merging differs from the gate-level decomposition)"]


def config(tier):
    q = tier == "quick"
    return {
        "hashseeds": [0, 1] if q else [0, 1, 2, 3],
        "families": [],
        "mc": [{"module": "MCExprReader", "cfg": "MCExprReader", "workers": 4, "timeout": 900},
               # the reader as it was before the reserved-identifier repair: the model reproduces the capture defects
               {"module": "MCExprReader", "cfg": "MCExprReader", "workers": 2, "timeout": 600, "env": {"MC_OLD_READER": "1"}, "expect": "violation"},
               {"module": "MCVerilogIO", "cfg": "MCVerilogIO", "workers": 4, "timeout": 900}],
        "shards": 8 if q else 16,
        "negctl": 12,
    }


def cases(ctx):
    n = 500 if ctx.quick else 12000
    for j in range(n):
        yield {"op": "parse", "salt": j, "src": "PROG"}
    for j in range(40 if ctx.quick else 400):
        yield {"op": "reject", "salt": j, "src": "REJECT"}
    for k in range(len(CAPTURE)):
        for order in (0, 1):
            yield {"op": "capture", "k": k, "order": order, "src": "CAPTURE"}
    # two DIFFERENT sub-expressions whose invented gate names coincide (a_b & c and a & b_c both spell and_a_b_c): a reader
    # that recognises "the gate it has built before" by that name computes the wrong function (seeded change C02-r9A)
    for j in range(48 if ctx.quick else 480):
        yield {"op": "join", "salt": j, "src": "JOIN"}


# a user net that is called like the gate the parser creates for an inner sub-expression
CAPTURE = [
    ("not_a", ("&", ("~", ("id", "a")), ("id", "b"))),
    ("and_a_b", ("|", ("&", ("id", "a"), ("id", "b")), ("id", "c"))),
    ("or_a_b", ("&", ("|", ("id", "a"), ("id", "b")), ("id", "c"))),
    ("xor_a_b", ("&", ("^", ("id", "a"), ("id", "b")), ("id", "c"))),
    ("xnor_a_b", ("|", ("~^", ("id", "a"), ("id", "b")), ("id", "c"))),
    ("not_a", ("~", ("~", ("id", "a")))),
    ("and_a_b", ("~", ("&", ("id", "a"), ("id", "b")))),
    ("mux_n_a_b_c", ("?:", ("id", "a"), ("id", "b"), ("id", "c"))),
    ("mux_a0_a_b_c", ("?:", ("id", "a"), ("id", "b"), ("id", "c"))),
]


def capture_program(k, order):
    nm, ex = CAPTURE[k]
    items = [{"k": "assign", "lhs": nm, "rhs": ("|", ("id", "c"), ("id", "a"))}, {"k": "assign", "lhs": "y", "rhs": ex}]
    return {"name": "top", "inputs": ["a", "b", "c"], "outputs": ["y", nm], "wires": [nm], "items": items, "bbtypes": []}, order


def join_program(r):
    ops = ["&", "|", "^", "~^"]
    o1, o2 = r.choice(ops), r.choice(ops)
    ID = lambda n: ("id", n)  # noqa: E731
    shape = r.randrange(4)
    if shape == 0:      # binary: a_b . c   versus   a . b_c
        e1, e2, ins = (o1, ID("a_b"), ID("c")), (o1, ID("a"), ID("b_c")), ["a_b", "c", "a", "b_c", "d"]
    elif shape == 1:    # select / branch of ?:  s_a ? b : c  versus  s ? a_b : c
        e1, e2, ins = ("?:", ID("s_a"), ID("b"), ID("c")), ("?:", ID("s"), ID("a_b"), ID("c")), ["s_a", "b", "c", "s", "a_b", "d"]
    elif shape == 2:    # an inverter inside: ~a_b . c  versus a plain net called like the inverter's operand join
        e1, e2, ins = (o1, ("~", ID("a_b")), ID("c")), (o1, ("~", ID("a")), ID("b_c")), ["a_b", "c", "a", "b_c", "d"]
    else:               # nested: (a . b_c) inside another operator on both sides
        e1, e2, ins = (o2, (o1, ID("a_b"), ID("c")), ID("a")), (o2, (o1, ID("a"), ID("b_c")), ID("a")), ["a_b", "c", "a", "b_c", "d"]
    top = (lambda e: e) if shape == 1 else (lambda e: (o2, e, ID("d")))      # ?: cannot stand below another operator
    items = [{"k": "assign", "lhs": "y1", "rhs": top(e1)}, {"k": "assign", "lhs": "y2", "rhs": top(e2)}]
    if r.random() < 0.5:
        items.reverse()
    if r.random() < 0.3:   # the same sub-expression a second time as well (sharing it is legitimate, confusing it is not)
        items.append({"k": "assign", "lhs": "y3", "rhs": e1 if shape == 1 else (r.choice(ops), e1, ID("a"))})
    outs = [it["lhs"] for it in items]
    return {"name": "top", "inputs": ins, "outputs": outs, "wires": [], "items": items, "bbtypes": []}


def make(ctx, salt):
    r = ctx.rng("C02", salt)
    pool = r.choice(["plain", "plain", "synthetic", "synthetic", "escaped"])
    style = r.choice(["mixed", "mixed", "assign", "gates"])
    p = vlog.rand_program(r, style=style, pool=pool, bb=r.choice([0.0, 0.0, 0.3]), xconst=r.choice([0.0, 0.06]))
    return r, p


def run_case(case, ctx):
    import circuitgraph as cg

    if case["op"] == "capture":
        r = ctx.rng("C02cap", case["k"])
        p, order = capture_program(case["k"], case["order"])
    elif case["op"] == "join":
        r = ctx.rng("C02join", case["salt"])
        p = join_program(r)
    else:
        r, p = make(ctx, case["salt"])
    bbs = [cg.BlackBox(t["type"], t["ins"], t["outs"]) for t in p["bbtypes"]]
    ports = None
    if case["op"] == "reject":
        full = []
        for n in p["inputs"] + p["outputs"]:
            if n not in full:
                full.append(n)
        m = r.random()
        if m < 0.4 and len(full) > 1:
            drop = r.choice(full)
            ports = [x for x in full if x != drop]                     # a declared port missing from the list
        elif m < 0.8:
            ports = full + ["zz_undeclared"]                           # listed but never declared
        else:
            ports = full[:-1] + ["zz_other"] if full else ["zz_other"]
    text = vlog.verilog_text(p, r, ports=ports)
    if case["op"] == "capture":
        a0 = "  assign %s = c | a;\n" % p["items"][0]["lhs"]
        a1 = "  assign y = %s;\n" % vlog.unparse(p["items"][1]["rhs"], r, 0, 0.0)
        text = ("module top (a, b, c, y, %s);\n  input a, b, c;\n  output y, %s;\n" % (p["outputs"][1], p["outputs"][1])
                + (a0 + a1 if case["order"] == 0 else a1 + a0) + "endmodule\n")
    exc, c = "", None
    try:
        c = cg.io.verilog_to_circuit(text, p["name"], blackboxes=bbs)
    except Exception as e:
        exc = type(e).__name__
    sp = vlog.to_spec(p)
    import re as _re

    order = [i + 1 for i in p.get("_text_order", [])]
    if case["op"] == "capture":
        order = [1, 2] if case["order"] == 0 else [2, 1]
    idents = sorted(set(_re.findall(r"\\\S+|[A-Za-z_][A-Za-z_0-9$]*", text)))       # the reader's own notion of "every identifier"
    nt = any(it["k"] == "bb" or (it["k"] == "assign" and it["rhs"][0] not in ("id", "c")) for it in p["items"])
    users = set(p["inputs"]) | set(p["outputs"]) | set(p["wires"])
    tags = ["net_named_like_inner_gate"] if users & inner_gate_names(p) else []
    return {"kind": "parse", "dialect": "verilog", "p": sp, "r": proj(c) if c is not None else {}, "exc": exc, "expect_reject": case["op"] == "reject",
            "text": text, "nontrivial": nt, "tags": tags, "order": order, "idents": idents}


def inner_gate_names(p):
    """Names the parser's documented scheme gives to the gates of inner sub-expressions (not_<a>, and_<a>_<b>, ...,
    mux_n_/mux_a0_/mux_a1_/mux_o_<s>_<a>_<b>) - used only to recognise the known finding F-C02-name-capture."""
    names = set()

    def nm(e, top):
        k = e[0]
        if k == "id":
            return e[1]
        if k == "c":
            return "tie_" + e[1]
        if k in ("~", "!"):
            n = "not_" + nm(e[1], False)
        elif k == "?:":
            io = "_".join(nm(x, False) for x in e[1:])
            names.update({"mux_n_" + io, "mux_a0_" + io, "mux_a1_" + io})
            n = "mux_o_" + io
        else:
            op = {"&": "and", "|": "or", "^": "xor", "~^": "xnor", "^~": "xnor"}[k]
            n = "%s_%s_%s" % (op, nm(e[1], False), nm(e[2], False))
        if not top:
            names.add(n)
        return n

    for it in p["items"]:
        if it["k"] == "assign":
            nm(it["rhs"], True)
        elif it["k"] == "gate":
            for e in it["ins"]:
                nm(e, False)
        else:
            for _, e in it["conns"]:
                if e is not None:
                    nm(e, False)
    return names


def negctl(e, rng):
    if e["exc"] or e["expect_reject"] or not e["r"] or "x" in e["r"]["ty"]:
        return []
    r = copy.deepcopy(e["r"])
    flip = {"and": "nand", "nand": "and", "or": "nor", "nor": "or", "xor": "xnor", "xnor": "xor", "not": "buf"}
    driven = {it.get("out") or it.get("lhs") for it in e["p"]["items"] if it["k"] != "bb"}
    gates = [i for i, t in enumerate(r["ty"]) if t in flip and r["fi"][i] and r["names"][i] in driven]
    if not gates:
        return []
    i = rng.choice(gates)
    r["ty"][i] = flip[r["ty"][i]]
    c = dict(e)
    c["r"] = r
    c["corruption"] = "driver of net %s inverted in the recorded circuit" % r["names"][i]
    return [c]

"""C01 - Tseitin CNF / solve() is exact for circuit semantics."""
import copy
import itertools

from ..proj import build, proj, proj_graph

ID = "C01"
LEVEL = "model_checking"
RULE = ("MC: as-built encoder model (CGSat!Encode) on NoX(G1) + parity pairs of G2 under EVERY fan-in iteration order. "
        "Traces: sat.cnf (clauses + variable map) and sat.solve on G1 without x (exhaustive), G2 (quick: seeded "
        "slice), cyclic variants GC (G2 + one feedback edge), NAMES variants (nodes named like the encoder's "
        "auxiliary variables: xor_<a>_<b>, xor_inv_<g>), small blackbox circuits, random DAGs with flops (solve "
        "only); assumptions = every assignment of <=1 node and seeded pairs/triples incl. contradictory and "
        "internal-node ones; every case under every listed PYTHONHASHSEED. distinct = distinct recorded events; "
        "non-trivial = circuit has a multi-input gate or a blackbox pin")
ASSUMPTIONS = ["x constants make sat.cnf raise ValueError loudly: outside the property's domain, not generated"]


def config(tier):
    q = tier == "quick"
    return {
        "hashseeds": [0, 1] if q else [0, 1, 2, 3, 4, 5, 6, 7],
        "families": ["G1", "G2"],
        "mc": [{"module": "MCTseitin", "cfg": "MCTseitin", "workers": 4, "timeout": 900}],
        "shards": 8 if q else 16,
        "negctl": 16,
    }


def no_x(p):
    return "x" not in p["ty"]


def rename(p, mapping):
    q = copy.deepcopy(p)
    q["names"] = [mapping.get(n, n) for n in q["names"]]
    return q


def names_variants(p):
    """Adversarial names: some node is called like an auxiliary variable the encoder derives from operand names."""
    out = []
    n = p["n"]
    g = n - 1  # the family's gate is the last node
    t = p["ty"][g]
    if t not in ("xor", "xnor"):
        return out
    ops = [p["names"][j - 1] for j in p["fi"][g]]
    gname = p["names"][g]
    if t == "xnor" and len(ops) >= 2:
        out.append(rename(p, {ops[0]: "xor_inv_" + gname}))
        for pre in ("~", "!", "not_", "-"):
            out.append(rename(p, {ops[0]: pre + gname}))
    if len(ops) >= 3:
        for a, b in itertools.permutations(ops, 2):
            others = [o for o in ops if o not in (a, b)]
            out.append(rename(p, {others[0]: "xor_%s_%s" % (a, b)}))
    return out


def cyclic_variants(p, rng, self_loops=False):
    """G2 circuit plus a feedback edge g2 -> g1 (g1 multi-input) - cyclic; optionally a gate that feeds itself."""
    out = []
    if p["ty"][3] not in ("buf", "not") and 4 in p["fi"][4]:
        q = copy.deepcopy(p)
        q["fi"][3] = sorted(q["fi"][3] + [5])
        q["acyc"] = False
        out.append(q)
    if self_loops and p["ty"][4] not in ("buf", "not") and 5 not in p["fi"][4]:
        q = copy.deepcopy(p)
        q["fi"][4] = sorted(q["fi"][4] + [5])       # g2 = f(..., g2)
        q["acyc"] = False
        out.append(q)
    return out


def bb_small(rng):
    import networkx as nx

    out = []
    types = ["and", "nand", "or", "nor", "xor", "xnor", "buf", "not"]
    for t1 in types:
        for t2 in ["and", "nor", "xor", "xnor"]:
            g = nx.DiGraph()
            for i in ("a", "b"):
                g.add_node(i, type="input", output=False)
            g.add_node("g", type=t1, output=False)
            g.add_edge("a", "g")
            if t1 not in ("buf", "not"):
                g.add_edge("b", "g")
            g.add_node("ff.d", type="bb_input", output=False)
            g.add_node("ff.q", type="bb_output", output=False)
            g.add_node("p", type="buf", output=False)
            g.add_node("o", type=t2, output=True)
            g.add_edges_from([("g", "ff.d"), ("ff.q", "p"), ("p", "o"), ("b", "o")])
            import circuitgraph as cg

            out.append(proj_graph(g, "bbs", {"ff": cg.BlackBox("dff", ["d"], ["q"])}))
    return out


def assumption_sets(p, rng, few):
    n = p["n"]
    res = [[]]
    nodes = list(range(1, n + 1))
    singles = [[[i, b]] for i in nodes for b in (False, True)]
    if few:
        singles = rng.sample(singles, min(len(singles), 4))
    res += singles
    for _ in range(3 if few else 8):
        k = rng.choice([2, 2, 3])
        if n >= k:
            res.append([[i, rng.random() < 0.5] for i in sorted(rng.sample(nodes, k))])
    return res


def cases(ctx):
    rng = ctx.rng("C01")
    g1 = [p for p in ctx.family("G1") if no_x(p)]
    g2 = ctx.family("G2")
    g2s = rng.sample(g2, 500) if ctx.quick else g2
    fams = [("G1", g1), ("G2", g2s)]
    names = []
    for p in g1:
        names += names_variants(p)
    if ctx.quick:
        names = rng.sample(names, min(len(names), 400))
    fams.append(("NAMES", names))
    cyc = []
    for p in (rng.sample(g2, 600) if ctx.quick else g2):
        cyc += cyclic_variants(p, rng, self_loops=True)
    fams.append(("GC", cyc))
    fams.append(("BB", bb_small(rng)))
    ren = []
    pool = ["a", "b", "c", "d", "e", "q", "w", "z", "n1", "n2", "n7", "x0", "x1", "sig", "t_0", "u", "v", "k9", "m", "p"]
    pp = [p for p in g2 if p["ty"][3] in ("xor", "xnor") and p["ty"][4] in ("xor", "xnor") and len(p["fi"][3]) == 3 and len(p["fi"][4]) >= 3]
    for i, p in enumerate(pp):
        for v in range(12 if ctx.quick else 60):
            r = ctx.rng("C01ren", i, v)
            nm = r.sample(pool, 5)
            ren.append(rename(p, dict(zip(p["names"], nm))))
    fams.append(("RENAMED", ren))
    for src, fam in fams:
        for i, p in enumerate(fam):
            yield {"op": "cnf", "c": p, "src": src}
            r = ctx.rng("C01a", src, i)
            few = ctx.quick or src in ("G2", "GC")
            for a in assumption_sets(p, r, few):
                yield {"op": "solve", "c": p, "assum": a, "src": src}
    # histories on ONE Circuit object: solve, edit the circuit in place, solve again (a stale encoding must not be reused)
    for i, p in enumerate(g2s[: (150 if ctx.quick else 1500)]):
        r = ctx.rng("C01h", i)
        yield {"op": "solve_history", "c": p, "edit": r.choice(["retype", "retype", "connect", "disconnect"]),
               "assum": [assumption_sets(p, r, True)[-1], assumption_sets(p, r, True)[-1]], "salt": i, "src": "HIST"}
    from .. import gen

    for j in range(40 if ctx.quick else 400):
        r = ctx.rng("C01g3", j)
        c = gen.rand_circuit(r, n_in=r.randint(2, 6), n_gates=r.randint(4, 18), max_fanin=4)
        if r.random() < 0.5:
            gen.add_flops(r, c, n_flops=r.randint(1, 2))
        p = proj(c)
        for a in assumption_sets(p, r, True):
            yield {"op": "solve", "c": p, "assum": a, "src": "G3"}


def solve_event(cg, c, p, assum_idx):
    ev = {"kind": "solve", "c": p, "assum": assum_idx, "exc": ""}
    assum = {p["names"][i - 1]: (int(b) if (len(assum_idx) + i) % 2 else b) for i, b in assum_idx}   # bool or 0/1
    try:
        res = cg.sat.solve(c, assum)
        if res is False:
            ev.update({"sat": False, "res": []})
        else:
            ev.update({"sat": True, "res": [bool(res[n]) for n in p["names"] if n in res]})
    except Exception as e:
        ev.update({"exc": type(e).__name__, "sat": False, "res": []})
    ev["nontrivial"] = True
    return ev


def run_history(case, ctx):
    import circuitgraph as cg

    c = build(case["c"], case.get("ord"))
    r = ctx.rng("C01hr", case["salt"])
    evs = [solve_event(cg, c, proj(c), [])]
    evs.append(solve_event(cg, c, proj(c), [[i, b] for i, b in case["assum"][0]]))
    gates = sorted(n for n in c.nodes() if c.type(n) in ("and", "nand", "or", "nor", "xor", "xnor") and len(c.fanin(n)) >= 2)
    if case["edit"] == "retype" and gates:
        g = r.choice(gates)
        c.set_type(g, r.choice([t for t in ("and", "nand", "or", "nor", "xor", "xnor") if t != c.type(g)]))
    elif case["edit"] == "connect" and gates:
        g = r.choice(gates)
        src = [n for n in sorted(c.inputs()) if n not in c.fanin(g)]
        if src:
            c.connect(r.choice(src), g)
    elif gates:
        g = r.choice(gates)
        c.disconnect(sorted(c.fanin(g))[0], g)
    p2 = proj(c)
    idx = {n: k + 1 for k, n in enumerate(p2["names"])}
    names1 = case["c"]["names"]
    a2 = [[idx[names1[i - 1]], b] for i, b in case["assum"][1] if names1[i - 1] in idx]
    evs.append(solve_event(cg, c, p2, a2))
    evs.append(solve_event(cg, c, p2, []))
    return evs


def run_case(case, ctx):
    import circuitgraph as cg

    if case["op"] == "solve_history":
        return run_history(case, ctx)
    p = case["c"]
    c = build(p, case.get("ord"))
    exc = ""
    ev = {"kind": case["op"], "c": p}
    multi = any(t in ("and", "nand", "or", "nor", "xor", "xnor") and len(p["fi"][i]) > 1 for i, t in enumerate(p["ty"]))
    ev["nontrivial"] = bool(multi or p["bbs"])
    if case["op"] == "cnf":
        try:
            formula, variables = cg.sat.cnf(c)
            ev["nv"] = int(formula.nv)
            ev["clauses"] = [[int(l) for l in cl] for cl in formula.clauses]
            ev["vars"] = [int(variables.id(n)) for n in p["names"]]
        except Exception as e:
            exc = type(e).__name__
            ev.update({"nv": 0, "clauses": [], "vars": []})
    else:
        assum = {p["names"][i - 1]: (int(b) if (len(case["assum"]) + i) % 2 else b) for i, b in case["assum"]}   # bool or 0/1
        ev["assum"] = case["assum"]
        try:
            res = cg.sat.solve(c, assum)
            if res is False:
                ev["sat"] = False
                ev["res"] = []
            else:
                ev["sat"] = True
                ev["res"] = [bool(res[n]) for n in p["names"] if n in res]
        except Exception as e:
            exc = type(e).__name__
            ev.update({"sat": False, "res": []})
    ev["exc"] = exc
    return ev


def negctl(e, rng):
    c = copy.deepcopy(e)
    if e["kind"] == "cnf" and e.get("clauses") and e["c"]["acyc"] and "input" in e["c"]["ty"]:
        # an acyclic circuit has consistent valuations with either value of any input: forcing one input
        # in the recorded clause list must make the projected model set differ
        i = e["c"]["ty"].index("input")
        c["clauses"].append([e["vars"][i]])
        c["corruption"] = "unit clause forcing input %s added to the recorded clauses" % e["c"]["names"][i]
        return [c]
    if e["kind"] == "solve" and e.get("sat") and e["c"]["acyc"]:
        p = e["c"]
        gates = [i for i, t in enumerate(p["ty"]) if t in ("and", "nand", "or", "nor", "xor", "xnor", "buf", "not", "bb_input") and p["fi"][i]]
        if not gates:
            return []
        i = rng.choice(gates)
        c["res"][i] = not c["res"][i]
        c["corruption"] = "value of gate %s flipped in the returned valuation" % p["names"][i]
        c2 = copy.deepcopy(e)
        c2["sat"] = False
        c2["res"] = []
        c2["corruption"] = "SAT answer replaced by UNSAT"
        return [c, c2]
    return []

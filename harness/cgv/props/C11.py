"""C11 - sensitivity analyses agree with their definitions."""
import copy

from ..proj import build, proj, proj_graph
from . import C01

ID = "C11"
LEVEL = "model_checking"
RULE = ("MC: as-built descending search of props.sensitivity over the encoded count with its partial bit constraint returns "
        "the maximum for every cone size 1..8 and every set of achievable counts (MCSens). Traces judged by TLC from the "
        "definitions (flip a node / flip an input on truth-table sets): sensitization_transform (all endpoints and endpoint "
        "subsets, incl. circuits whose outputs feed other outputs), props.sensitize (with input assumptions), "
        "sensitivity_transform (dif_out_s and the sen_out count on every pattern), props.sensitivity / influence / "
        "avg_sensitivity on TLC-enumerated G2, a family with every cone size 1..8 (and-or, xor, and, mux-like, functionally "
        "constant nodes) and random DAGs; every node with a startpoint in its cone (inputs, internal nodes, outputs); "
        "several hash seeds. distinct = distinct events; non-trivial = cone has >= 2 startpoints")
ASSUMPTIONS = ["x constants are not generated (analyses are Boolean)"]


def config(tier):
    q = tier == "quick"
    return {
        "hashseeds": [0, 1] if q else [0, 1, 2, 3, 4, 5, 6, 7],
        "families": ["G2"],
        "mc": [{"module": "MCSens", "cfg": "MCSens", "workers": 2, "timeout": 600}]
              # as-built sensitivity_transform program on every model result (heavy: thorough tier only, 714 circuits x 1..6 orders)
              + ([] if q else [{"module": "MCLoops", "cfg": "MCSensTx", "workers": 12, "timeout": 5400, "env": {"MC_FULL": "1"}}]),
        "shards": 8 if q else 16,
        "negctl": 12,
    }


def cone_family():
    """Circuits whose output has a cone of exactly m startpoints, m = 1..8, several shapes."""
    import networkx as nx

    out = []
    for m in range(1, 9):
        for shape in ("and", "xor", "andor", "const0", "muxlike"):
            g = nx.DiGraph()
            ins = ["i%d" % j for j in range(m)]
            for i in ins:
                g.add_node(i, type="input", output=False)
            if shape in ("and", "xor"):
                g.add_node("o", type=shape, output=True)
                for i in ins:
                    g.add_edge(i, "o")
            elif shape == "andor":
                g.add_node("o", type="or", output=True)
                for j in range(0, m, 2):
                    a = "a%d" % j
                    g.add_node(a, type="and", output=False)
                    g.add_edge(ins[j], a)
                    if j + 1 < m:
                        g.add_edge(ins[j + 1], a)
                    g.add_edge(a, "o")
            elif shape == "const0":
                # and(i0, not i0, rest...) : functionally constant, sensitivity 0
                g.add_node("ni", type="not", output=False)
                g.add_edge(ins[0], "ni")
                g.add_node("o", type="and", output=True)
                g.add_edge("ni", "o")
                for i in ins:
                    g.add_edge(i, "o")
            else:
                if m < 3:
                    continue
                g.add_node("ns", type="not", output=False)
                g.add_edge(ins[0], "ns")
                g.add_node("t0", type="and", output=False)
                g.add_node("t1", type="and", output=True)     # an output that feeds another output
                g.add_edge(ins[0], "t0")
                g.add_edge("ns", "t1")
                for k, i in enumerate(ins[1:]):
                    g.add_edge(i, "t0" if k % 2 == 0 else "t1")
                g.add_node("o", type="or", output=True)
                g.add_edge("t0", "o")
                g.add_edge("t1", "o")
            out.append(proj_graph(g, "cone%d%s" % (m, shape)))
    return out


def cases(ctx):
    rng = ctx.rng("C11")
    g2 = ctx.family("G2")
    fams = [("CONE", cone_family()), ("G2", rng.sample(g2, 60 if ctx.quick else 1500))]
    from .. import gen

    g3 = []
    for j in range(40 if ctx.quick else 600):
        r = ctx.rng("C11g3", j)
        c = gen.rand_circuit(r, n_in=r.randint(1, 5), n_gates=r.randint(2, 9), max_fanin=3, consts=0.2, extra_out=0.4, out_is_input=0.2, loaded_in_out=0.15)
        g3.append(proj(c))
    fams.append(("G3", g3))
    pre = []
    for p in cone_family():
        if sum(1 for t in p["ty"] if t == "input") in (2, 3, 4):
            q = copy.deepcopy(p)
            ren = {"i0": "i1", "i1": "i10", "i2": "en", "i3": "en_b"}
            q["names"] = [ren.get(n, n) for n in q["names"]]
            pre.append(q)
    fams.append(("PREFIX", pre))
    disj = []
    for j in range(12 if ctx.quick else 120):
        r = ctx.rng("C11disj", j)
        a = gen.rand_circuit(r, n_in=r.randint(1, 3), n_gates=r.randint(2, 5), max_fanin=3, names=["p0", "p1", "p2"])
        b = gen.rand_circuit(r, n_in=r.randint(1, 2), n_gates=r.randint(1, 4), max_fanin=3, names=["f", "h"])
        import networkx as nx

        g = nx.union(a.graph, nx.relabel_nodes(b.graph, {n: "z_" + n for n in b.graph.nodes if n not in ("f", "h")}))
        from ..proj import proj_graph

        disj.append(proj_graph(g, "disj"))
    fams.append(("DISJ", disj))
    for src, fam in fams:
        for k, p in enumerate(fam):
            r = ctx.rng("C11n", src, k)
            names = p["names"]
            nodes = list(range(p["n"]))
            if src == "CONE":
                sel = [i for i in nodes if p["names"][i] in ("o", "t1", "i0", "a0")]
            else:
                sel = r.sample(nodes, min(len(nodes), 3 if ctx.quick else 6))
            outs = [n for n, o in zip(names, p["out"]) if o]
            if len(sel) >= 2:
                yield {"op": "sens_list", "c": p, "nodes": [names[i] for i in sel if p["ty"][i] not in ("0", "1")], "src": src}
            for i in sel:
                if p["ty"][i] in ("0", "1"):
                    continue
                n = names[i]
                yield {"op": "transform", "c": p, "node": n, "E": None, "src": src}
                if outs:
                    yield {"op": "transform", "c": p, "node": n, "E": r.sample(outs, r.randint(1, len(outs))), "src": src}
                ins = [x for x, t in zip(names, p["ty"]) if t == "input"]
                a = [[x, r.random() < 0.5] for x in r.sample(ins, min(len(ins), r.choice([0, 1, 2])))]
                yield {"op": "sensitize", "c": p, "node": n, "assum": a, "src": src}
                big = sum(1 for t in p["ty"] if t == "input") > 5
                if not (ctx.quick and big):
                    yield {"op": "sens", "c": p, "node": n, "src": src}
                else:
                    yield {"op": "sens_transform_only", "c": p, "node": n, "src": src}


def has_startpoint(c, n):
    return bool(c.startpoints(n))


def run_case(case, ctx):
    import circuitgraph as cg

    p = case["c"]
    c = build(p, case.get("ord"))
    if case["op"] == "sens_list":
        # list argument: one result per node, each judged like the single-node call
        ns = [n for n in case["nodes"] if has_startpoint(c, n)]
        big = sum(1 for t in p["ty"] if t == "input") > 5
        if len(ns) < 2 or (ctx.quick and big):
            return []
        evs = []
        try:
            infl = cg.props.influence(c, ns, approx=False)
            avg = cg.props.avg_sensitivity(c, ns, approx=False)
            for n in ns:
                evs.append({"kind": "sensitivity_props", "c": p, "node": n, "exc": "", "sens": int(cg.props.sensitivity(c, n)),
                            "infl": sorted([k] + [int(x) for x in float(v).as_integer_ratio()] for k, v in infl[n].items()),
                            "avg_num": int(float(avg[n]).as_integer_ratio()[0]), "avg_den": int(float(avg[n]).as_integer_ratio()[1]),
                            "nontrivial": True})
        except Exception as e:
            evs.append({"kind": "sensitivity_props", "c": p, "node": ns[0], "exc": type(e).__name__, "sens": -1, "infl": [],
                        "avg_num": 0, "avg_den": 1, "nontrivial": True})
        return evs
    n = case["node"]
    if not has_startpoint(c, n):
        return []
    nsp = len(c.startpoints(n))
    if case["op"] == "transform":
        E = case["E"]
        if E is not None and n not in (c.transitive_fanin(E) | set(E)):
            return []       # loud rejection: n is not in the fan-in of the chosen endpoints
        exc, m = "", None
        try:
            m = cg.tx.sensitization_transform(c, n, E)
        except Exception as e:
            exc = type(e).__name__
        return {"kind": "sensitization_transform", "c": p, "node": n, "e_given": E is not None, "E": E or [],
                "m": proj(m) if m is not None else {}, "exc": exc, "nontrivial": nsp >= 2}
    if case["op"] == "sensitize":
        exc, res = "", None
        if ctx.rng("C11hist", n, len(case["assum"])).random() < 0.5:
            try:    # an earlier analysis on the same object must leave nothing behind (output marks, names, registry)
                cg.props.influence(c, n, approx=False)
            except Exception:
                pass
        try:
            res = cg.props.sensitize(c, n, {k: v for k, v in case["assum"]})
        except Exception as e:
            exc = type(e).__name__
        return {"kind": "sensitize", "c": p, "node": n, "assum": case["assum"], "found": res is not None,
                "val": sorted([k, bool(v)] for k, v in (res or {}).items()), "exc": exc, "nontrivial": nsp >= 2}
    evs = []
    exc, sen = "", None
    try:
        sen = cg.tx.sensitivity_transform(c, n)
    except Exception as e:
        exc = type(e).__name__
    evs.append({"kind": "sensitivity_transform", "c": p, "node": n, "sen": proj(sen) if sen is not None else {}, "exc": exc,
                "nontrivial": nsp >= 2})
    if case["op"] == "sens_transform_only":
        return evs
    ev = {"kind": "sensitivity_props", "c": p, "node": n, "exc": "", "sens": -1, "infl": [], "avg_num": 0, "avg_den": 1, "nontrivial": nsp >= 2}
    try:
        ev["sens"] = int(cg.props.sensitivity(c, n))
        infl = cg.props.influence(c, n, approx=False)
        ev["infl"] = sorted([k] + [int(x) for x in float(v).as_integer_ratio()] for k, v in infl.items())
        avg = cg.props.avg_sensitivity(c, n, approx=False)
        ev["avg_num"], ev["avg_den"] = [int(x) for x in float(avg).as_integer_ratio()]
    except Exception as e:
        ev["exc"] = type(e).__name__
    evs.append(ev)
    return evs


def negctl(e, rng):
    c = copy.deepcopy(e)
    if e["kind"] == "sensitivity_props" and not e["exc"]:
        c["sens"] = e["sens"] + 1
        c["corruption"] = "sensitivity off by one"
        return [c]
    if e["kind"] == "sensitize" and not e["exc"] and e["found"] is False:
        return []
    return []

"""C17 - supergate decomposition covers the circuit with independent-input blocks."""
import copy

import networkx as nx

from ..proj import build, proj

ID = "C17"
LEVEL = "model_checking"
RULE = ("Traces of tx.supergates judged by TLC (JudgeTx!Judge_supergates, declarative): every element single-output; "
        "internal wiring = induced sub-graph of the circuit with full fan-in of internal nodes; every gate in the cone of "
        "the outputs internal to some supergate; inputs of a supergate have pairwise disjoint transitive fan-in; producers "
        "before consumers; composing the supergates in order reproduces the original truth table at every output; for "
        "construct_supercircuit=True also the super-circuit's instances, pins and nets. Circuits have fan-in <= 2 (so the "
        "fan-in-limited circuit is the circuit itself): TLC-enumerated G2 restricted to fan-in <= 2, random trees, "
        "reconvergent cones, several outputs sharing logic, constants; single-output circuits for the super-circuit form; "
        "several hash seeds. distinct = distinct events; non-trivial = circuit has reconvergent fan-out or >= 2 outputs")
ASSUMPTIONS = ["structural clauses are judged on circuits whose fan-in is already <= 2 (then limit_fanin(c,2) = c, see C05)"]


def config(tier):
    q = tier == "quick"
    return {
        "hashseeds": [0, 1] if q else [0, 1, 2, 3, 4, 5, 6, 7],
        "families": ["G2"],
        "mc": [{"module": "MCSupergates", "cfg": "MCSupergates1", "workers": 4, "timeout": 1800, "env": {} if q else {"MC_FULL": "1"}},
               {"module": "MCSupergates", "cfg": "MCSupergatesD", "workers": 4, "timeout": 1800, "env": {} if q else {"MC_FULL": "1"}},
               # shared cones: holds since the repair that recognises a block found under two outputs as one (model-checked first)
               {"module": "MCSupergates", "cfg": "MCSupergatesS", "workers": 4, "timeout": 1800, "env": {} if q else {"MC_FULL": "1"}}],
        "shards": 8 if q else 16,
        "negctl": 10,
    }


def cases(ctx):
    rng = ctx.rng("C17")
    g2 = [p for p in ctx.family("G2") if max(len(f) for f in p["fi"]) <= 2]
    for p in (rng.sample(g2, 150) if ctx.quick else g2):
        yield {"op": "supergates", "c": p, "super": False, "src": "G2"}
        if sum(p["out"]) == 1:
            yield {"op": "supergates", "c": p, "super": True, "src": "G2"}
    from .. import gen

    for j in range(60 if ctx.quick else 600):
        r = ctx.rng("C17tree", j)
        t = rand_tree(r, r.choice([4, 5, 5, 6, 7, 8]))
        if j % 3 == 0 and "t1" in t.graph:
            # block roots whose names differ only in characters that are not word characters
            import networkx as nx

            nx.relabel_nodes(t.graph, {"t0": "n[1]", "t1": "n_1_"}, copy=False)
        p = proj(t)
        yield {"op": "supergates", "c": p, "super": False, "src": "TREE"}
        yield {"op": "supergates", "c": p, "super": True, "src": "TREE"}
    # an output that is the root of its own block, lies inside the block of another output (which re-uses it reconvergently)
    # and is read by further outputs: every reader has to come after the block that produces it
    pool = ["a", "b", "c", "e", "f", "h", "k", "m", "p", "q", "s", "t", "u", "v", "w", "x", "y", "z", "n1", "n2", "n3", "n4"]
    for j in range(30 if ctx.quick else 300):
        r = ctx.rng("C17shared", j)
        import circuitgraph as cg

        nm = r.sample(pool, 12)
        a, b, c0, o0, o1, o2 = nm[:6]
        t = lambda: r.choice(["and", "or", "xor", "nand", "nor"])  # noqa: E731
        c = cg.Circuit("shared")
        for n in (a, b, c0):
            c.add(n, "input")
        c.add(o0, t(), fanin=[a, b], output=True)
        c.add(o1, t(), fanin=[o0, c0], output=True)
        c.add(o2, t(), fanin=[o1, a], output=True)
        for k in range(r.randint(1, 4)):
            c.add(nm[6 + k] + "_d", "input")
            c.add(nm[6 + k], t(), fanin=[o1, nm[6 + k] + "_d"], output=True)
        yield {"op": "supergates", "c": proj(c), "super": False, "src": "SHARED"}
    # many small circuits with two or three outputs, some of them read by other logic (the order of the returned list matters)
    for j in range(400 if ctx.quick else 8000):
        r = ctx.rng("C17multi", j)
        c = gen.rand_circuit(r, n_in=r.randint(3, 5), n_gates=r.randint(5, 10), max_fanin=2, extra_out=0.3, loaded_in_out=0.0, out_is_input=0.0)
        p = proj(c)
        if 2 <= sum(p["out"]) <= 4:
            yield {"op": "supergates", "c": p, "super": False, "src": "MULTI"}
    if ctx.hashseed == 0:
        # blocks nested deeper than Python's recursion limit (a ladder of two-input gates); recorded only if the call raises
        yield {"op": "supergates", "c": ladder(1100), "super": False, "src": "DEEP", "sparse": True}
    for j in range(120 if ctx.quick else 2500):
        r = ctx.rng("C17g3", j)
        single = r.random() < 0.5
        wide = j % 5 == 4
        c = gen.rand_circuit(r, n_in=r.randint(2, 6), n_gates=r.randint(3, 14), max_fanin=5 if wide else 2, consts=0.15 if r.random() < 0.3 else 0.0,
                             extra_out=0.0 if single else 0.25, out_is_input=0.0 if single else 0.3, loaded_in_out=0.0 if single else 0.25)
        if wide and len(c.nodes()) >= 5 and r.random() < 0.7:
            # a gate with 5-7 operands (odd and even counts: the fan-in limiter folds them in rounds)
            ops = r.sample(sorted(c.nodes()), min(len(c.nodes()), r.choice([5, 5, 6, 7])))
            c.add("w5", r.choice(["and", "or", "xor", "nand", "nor", "xnor"]), fanin=ops, output=True)
        if not single and r.random() < 0.15:
            c.add("kout", r.choice(["0", "1"]), output=True)           # a primary output that is a constant node
        if single:
            outs = sorted(c.outputs())
            keep = outs[-1]
            for o in outs[:-1]:
                c.set_output(o, False)
            # half of the time an input outside the cone of the output stays (unloaded inputs are lint-clean); one time in
            # four gates that hang off the cone without being observed stay as well
            if j % 4 != 3:
                c.remove_unloaded(inputs=(j % 2 == 0))
        if wide and j % 10 == 9:
            # a circuit that went through limit_fanin before (helper gates <g>_limit_fanin_<i> are already there)
            import circuitgraph as cg

            c = cg.tx.limit_fanin(c, 3)
        p = proj(c)
        if not p["n"] or not any(p["out"]):
            continue
        yield {"op": "supergates", "c": p, "super": False, "src": "G3"}
        if single:
            yield {"op": "supergates", "c": p, "super": True, "src": "G3"}


def rand_tree(r, leaves):
    """A fan-out-free tree of two-operand gates over `leaves` distinct primary inputs (every operand of a gate is a
    separate sub-tree or an input: every internal gate with two gate operands heads a block of its own)."""
    import circuitgraph as cg

    c = cg.Circuit("tree")
    pool = []
    for i in range(leaves):
        c.add("i%d" % i, "input")
        pool.append("i%d" % i)
    k = 0
    while len(pool) > 1:
        if r.random() < 0.7:
            a, b = pool.pop(0), pool.pop(0)      # level by level: balanced shapes
        else:
            a = pool.pop(r.randrange(len(pool)))
            b = pool.pop(r.randrange(len(pool)))
        g = "t%d" % k
        k += 1
        c.add(g, r.choice(["and", "nand", "or", "nor", "xor", "xnor"]), fanin=[a, b])
        if r.random() < 0.15:
            c.add(g + "n", r.choice(["not", "buf"]), fanin=g)
            g = g + "n"
        pool.append(g)
    c.set_output(pool[0])
    return c


def ladder(n):
    """x0 & x1 -> g1;  g1 & x2 -> g2; ... : every gate heads a block that contains the previous gate as an input."""
    import networkx as nx
    from ..proj import proj_graph

    g = nx.DiGraph()
    g.add_node("x0", type="input", output=False)
    prev = "x0"
    for i in range(1, n + 1):
        g.add_node("x%d" % i, type="input", output=False)
        g.add_node("g%d" % i, type="and" if i % 2 else "or", output=(i == n))
        g.add_edge(prev, "g%d" % i)
        g.add_edge("x%d" % i, "g%d" % i)
        prev = "g%d" % i
    return proj_graph(g, "ladder")


def topo_hint(sgs):
    """Topological order of supergates (producer before consumer) for the super-circuit form - a hint the spec re-checks
    through the composition clause."""
    g = nx.DiGraph()
    internal = {}
    for k, sg in enumerate(sgs):
        g.add_node(k)
        for n in sg.nodes() - sg.inputs():
            internal.setdefault(n, []).append(k)
    for k, sg in enumerate(sgs):
        for i in sg.inputs():
            for q in internal.get(i, []):
                if q != k:
                    g.add_edge(q, k)
    try:
        return [sgs[k] for k in nx.lexicographical_topological_sort(g)]
    except Exception:
        return sgs


def run_case(case, ctx):
    import circuitgraph as cg

    c = build(case["c"], case.get("ord"))
    exc, L, superc = "", [], None
    try:
        if case["super"]:
            superc, mp = cg.tx.supergates(c, construct_supercircuit=True)
            L = topo_hint([mp[k] for k in sorted(mp)])
        else:
            L = cg.tx.supergates(c)
    except Exception as e:
        exc = type(e).__name__
    if case.get("sparse"):
        if not exc:
            ctx.count("deep_ladder_decomposed_into_%d_blocks" % len(L))
            return []
        # judged on a small stand-in circuit: only the fact that the call raised on a legal circuit matters
        return {"kind": "supergates", "c": ladder(2), "wide": False, "form": "list", "L": [], "superc": {}, "exc": exc, "nontrivial": True,
                "tags": ["output_cones_disjoint"]}
    ev = {"kind": "supergates", "c": case["c"], "wide": max([len(f) for f in case["c"]["fi"]] + [0]) > 2,
          "form": "super" if case["super"] else "list", "L": [proj(s) for s in L],
          "superc": proj(superc) if superc is not None else {}, "exc": exc}
    ev["nontrivial"] = sum(case["c"]["out"]) >= 2 or c.has_reconvergent_fanout()
    # feature used by the known-findings file: two different outputs whose cones share a gate
    outs = sorted(c.outputs())
    cones = {o: {n for n in (c.transitive_fanin(o) | {o}) if c.type(n) not in ("input", "0", "1", "x")} for o in outs}
    shared = any(cones[a] & cones[b] for i, a in enumerate(outs) for b in outs[i + 1:])
    ev["tags"] = ["output_cones_share_gates"] if shared else ["output_cones_disjoint"]
    return ev


def negctl(e, rng):
    """Change the type of a supergate's root inside the recorded supergate: its wiring is then no longer that of the circuit."""
    if e["exc"] or not e["L"] or e.get("wide"):
        return []       # wide circuits: the blocks belong to the unrecorded fan-in-limited circuit, the wiring clauses are not judged
    flip = {"and": "nand", "nand": "and", "or": "nor", "nor": "or", "xor": "xnor", "xnor": "xor", "not": "buf", "buf": "not"}
    c = copy.deepcopy(e)
    for sg in c["L"]:
        roots = [i for i, o in enumerate(sg["out"]) if o and sg["ty"][i] in flip]
        if roots:
            sg["ty"][roots[0]] = flip[sg["ty"][roots[0]]]
            c["corruption"] = "type of root %s changed inside its recorded supergate" % sg["names"][roots[0]]
            return [c]
    return []

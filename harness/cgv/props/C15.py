"""C15 - the bench reader and writer are faithful."""
import copy

from ..proj import build, proj
from .. import vlog
from . import C01

ID = "C15"
LEVEL = "model_checking"
RULE = ("Reader: bench programs generated as abstract syntax (INPUT/OUTPUT lines, gates BUF/BUFF/NOT/AND/NAND/OR/NOR/XOR/XNOR in "
        "upper or lower case with 1..3 operands, DFF lines incl. chains where one flop's D is another flop's Q in both textual "
        "orders), lines in a random permutation (outputs declared before definition, use before definition), blank/tab "
        "variants around parentheses, commas and `=`; TLC judges the parsed circuit against Den(program) (CGNetlist): "
        "declared io exactly, every net's Kleene truth table, each DFF a blackbox between its D net and its Q net. Writer: "
        "circuit_to_bench then bench_to_circuit on blackbox-free circuits with >= 1 input from TLC-enumerated G1 (no x) and "
        "G2 (slice) and random DAGs with and without constants 0/1, outputs that are inputs; several hash seeds; TLC judges "
        "same inputs/outputs and equal function at every output. distinct = distinct events; non-trivial = program has a "
        "DFF or >= 3 lines / circuit has a constant or multi-input gate")
ASSUMPTIONS = ["the bench unparser (harness/cgv/vlog.py) is trusted", "x constants cannot be written to bench (writer raises): not generated"]


def config(tier):
    q = tier == "quick"
    return {
        "hashseeds": [0, 1] if q else [0, 1, 2, 3, 4, 5, 6, 7],
        "families": ["G1", "G2"],
        "mc": [{"module": "MCBenchIO", "cfg": "MCBenchIO", "workers": 4, "timeout": 900}],
        "shards": 8 if q else 16,
        "negctl": 12,
    }


def cases(ctx):
    for j in range(500 if ctx.quick else 10000):
        yield {"op": "parse", "salt": j, "src": "PROG"}
    rng = ctx.rng("C15")
    g1 = [p for p in ctx.family("G1") if C01.no_x(p) and "input" in p["ty"]]
    for i, p in enumerate(g1):
        if not ctx.quick or i % 3 == ctx.seed % 3:
            yield {"op": "roundtrip", "c": p, "src": "G1"}
    g2 = ctx.family("G2")
    for p in (rng.sample(g2, 150) if ctx.quick else g2):
        yield {"op": "roundtrip", "c": p, "src": "G2"}
    from .. import gen

    for j in range(120 if ctx.quick else 2500):
        r = ctx.rng("C15g3", j)
        c = gen.rand_circuit(r, n_in=r.randint(1, 4), n_gates=r.randint(1, 9), max_fanin=4, consts=0.4, out_is_input=0.3, loaded_in_out=0.15)
        if r.random() < 0.2:
            c.graph.add_node("kout", type=r.choice(["0", "1"]), output=True)
        if r.random() < 0.1:
            import networkx as nx

            # names far longer than a text line (hierarchical names flattened by a synthesis tool)
            gates = [n for n in sorted(c.graph.nodes) if c.graph.nodes[n]["type"] != "input"]
            nx.relabel_nodes(c.graph, {g: g + "_" + "x" * r.choice([70, 90, 200]) for g in r.sample(gates, min(len(gates), 2))}, copy=False)
        if r.random() < 0.3:
            # nets called like helper nets a writer could invent next to an input: <input>_not, <input>_dup, <input>_0
            import networkx as nx

            gates = [n for n in sorted(c.graph.nodes) if c.graph.nodes[n]["type"] not in ("input", "0", "1")]
            ins = sorted(n for n in c.graph.nodes if c.graph.nodes[n]["type"] == "input")
            sfx = r.choice(["_not", "_not", "_dup", "_0", "_buf"])
            ren = {g: i + sfx for g, i in zip(r.sample(gates, min(len(gates), len(ins))), ins)}
            nx.relabel_nodes(c.graph, ren, copy=False)
        yield {"op": "roundtrip", "c": proj(c), "src": "G3"}
        if j % 3 == 0:
            yield {"op": "roundtrip", "c": proj(c), "twice": True, "src": "G3x2"}
    from .C18 import rand_cyclic

    n = 0
    for j in range(400):
        p = rand_cyclic(ctx.rng("C15cyc", j))
        if p is not None and "x" not in p["ty"]:
            n += 1
            yield {"op": "roundtrip", "c": p, "src": "CYC"}
            if n >= (25 if ctx.quick else 300):
                break


def run_case(case, ctx):
    import circuitgraph as cg

    if case["op"] == "parse":
        r = ctx.rng("C15p", case["salt"])
        p = vlog.bench_program(r)
        text = vlog.bench_text(p, r)
        exc, c = "", None
        try:
            c = cg.io.bench_to_circuit(text, p["name"])
        except Exception as e:
            exc = type(e).__name__
        nt = any(it["k"] == "bb" for it in p["items"]) or len(p["items"]) >= 3
        return {"kind": "parse", "dialect": "bench", "p": vlog.to_spec(p), "r": proj(c) if c is not None else {}, "exc": exc, "expect_reject": False,
                "text": text, "nontrivial": nt}
    c = build(case["c"], case.get("ord"))
    exc, c2, text = "", None, ""
    try:
        text = cg.io.circuit_to_bench(c)
        c2 = cg.io.bench_to_circuit(text, c.name)
        if case.get("twice"):
            text = cg.io.circuit_to_bench(c2)
            c2 = cg.io.bench_to_circuit(text, c.name)
    except Exception as e:
        exc = type(e).__name__
    p = case["c"]
    nt = any(len(f) > 1 for f in p["fi"]) or any(t in ("0", "1") for t in p["ty"])
    return {"kind": "bench_roundtrip", "c": p, "c2": proj(c2) if c2 is not None else {}, "exc": exc, "text": text, "nontrivial": nt}


def negctl(e, rng):
    key = "r" if e["kind"] == "parse" else "c2"
    if e["exc"] or not e[key] or not e[key].get("acyc"):
        return []
    r = copy.deepcopy(e[key])
    flip = {"and": "nand", "nand": "and", "or": "nor", "nor": "or", "xor": "xnor", "xnor": "xor", "not": "buf", "buf": "not"}
    outs = [i for i, (t, o) in enumerate(zip(r["ty"], r["out"])) if o and t in flip and r["fi"][i]]
    if not outs:
        return []
    i = rng.choice(outs)
    r["ty"][i] = flip[r["ty"][i]]
    c = dict(e)
    c[key] = r
    c["corruption"] = "output gate %s inverted in the recorded circuit" % r["names"][i]
    return [c]

"""C09 - unrolling equals iterated execution."""
import copy
import itertools

from ..proj import build, proj

ID = "C09"
LEVEL = "model_checking"
RULE = ("Traces of tx.unroll and tx.sequential_unroll judged by TLC against iterated execution computed in the "
        "specification (JudgeTx!RunSteps / SeqSteps): the node io_map gives for output o at step t has the truth table "
        "(over the unrolled circuit's own free inputs) obtained by running c for t+1 steps with state outputs fed back; "
        "inputs / outputs of the unrolled circuit are exactly the stated sets. unroll: TLC-enumerated G2 circuits and "
        "random DAGs (feed-through inputs, constants) x injective partial pairings of outputs to inputs x n = 1..4; "
        "sequential_unroll: random circuits with 1..3 flops (clk ignored) x add_flop_outputs x initial_values (None, '0', "
        "'1', 'x', per-flop dicts in every key order) x remove_unloaded x n = 1..3; several hash seeds. Free bits <= 12. "
        "distinct = distinct events; non-trivial = n >= 2 and at least one state pair / flop")
ASSUMPTIONS = ["every flop has one d and one q pin plus ignored pins; nets driven by non-Q outputs are not used (sequential_unroll deletes them by design)"]


def config(tier):
    q = tier == "quick"
    return {
        "hashseeds": [0, 1] if q else [0, 1, 2, 3, 4, 5, 6, 7],
        "families": ["G2"],
        "mc": [{"module": "MCTxApi", "cfg": "MCUnroll", "workers": 6, "timeout": 1500, "env": {} if q else {"MC_FULL": "1"}}],
        "shards": 8 if q else 16,
        "negctl": 12,
    }


def pairings(outs, ins, rng, limit):
    res = [[]]
    for k in range(1, min(len(outs), len(ins)) + 1):
        for os_ in itertools.combinations(outs, k):
            for is_ in itertools.permutations(ins, k):
                if all(o != i for o, i in zip(os_, is_)):
                    res.append([[o, i] for o, i in zip(os_, is_)])
    if len(res) > limit:
        res = [res[0]] + rng.sample(res[1:], limit - 1)
    # a feed-through port (input that is an output) may be the state OUTPUT of one pair and the state INPUT of another
    thru = [x for x in outs if x in ins]
    for t in thru:
        o2 = [o for o in outs if o != t]
        i2 = [i for i in ins if i != t]
        if o2 and i2:
            res.append([[rng.choice(o2), t], [t, rng.choice(i2)]])
    return res


def cases(ctx):
    rng = ctx.rng("C09")
    g2 = ctx.family("G2")
    from .. import gen

    srcs = [("G2", p) for p in (rng.sample(g2, 150) if ctx.quick else rng.sample(g2, 2000))]
    for j in range(80 if ctx.quick else 1000):
        r = ctx.rng("C09g3", j)
        c = gen.rand_circuit(r, n_in=r.randint(1, 4), n_gates=r.randint(2, 8), max_fanin=3, consts=0.2, out_is_input=0.4, loaded_in_out=0.2)
        srcs.append(("G3", proj(c)))
    for k, (src, p) in enumerate(srcs):
        r = ctx.rng("C09p", k)
        ins = [n for n, t in zip(p["names"], p["ty"]) if t == "input"]
        outs = [n for n, o in zip(p["names"], p["out"]) if o]
        for sio in pairings(outs, ins, r, 3):
            for n in r.sample([1, 2, 3, 4], 2):
                free = (len(ins) - len(sio)) * n + len(sio)
                if free <= 12:
                    yield {"op": "unroll", "c": p, "n": n, "sio": sio, "src": src}
    for j in range(60 if ctx.quick else 1000):
        r = ctx.rng("C09seq", j)
        c = gen.rand_circuit(r, n_in=r.randint(1, 3), n_gates=r.randint(2, 7), max_fanin=3, out_is_input=0.3)
        nf = r.randint(1, 3)
        big = j % 4 == 3
        if big:
            # a library cell with one-letter data pins and a two-letter complement output / clock
            import circuitgraph as cg

            gen.add_flops(r, c, nf, bbtype=cg.BlackBox("DFFQ", ["CK", "D"], ["Q", "QN"]), d="D", q="Q")
        else:
            gen.add_flops(r, c, nf)
        if r.random() < 0.25:
            c.graph.add_node("scan_en", type="input", output=False)      # a primary input nothing reads (lint-clean)
        if r.random() < 0.3:
            # primary ports whose names end like pin names (en_clk, y_q, s_d)
            import networkx as nx

            ren = {}
            for n in sorted(c.graph.nodes):
                t = c.graph.nodes[n]["type"]
                if t == "input" and n != "clk" and r.random() < 0.5:
                    ren[n] = n + r.choice(["_clk", "_d", "_q"])
                elif c.graph.nodes[n].get("output") and t not in ("bb_input", "bb_output", "input") and r.random() < 0.5:
                    ren[n] = n + r.choice(["_clk", "_d", "_q"])
            nx.relabel_nodes(c.graph, ren, copy=False)
        p = proj(c)
        insts = sorted(c.blackboxes)
        ivs = [None, "0", "1", "x"]
        vals = {i: r.choice(["0", "1", "x"]) for i in insts}
        for perm in itertools.permutations(insts):
            ivs.append([[i, vals[i]] for i in perm])
        if nf > 1:
            ivs.append([[insts[-1], "1"]])      # partial dict
        for iv in (r.sample(ivs, 3) if ctx.quick else ivs):
            n = r.choice([1, 2, 2, 3])
            nin = len([t for t in p["ty"] if t == "input"])
            if nin * n + nf > 12:
                n = 1
            yield {"op": "sequential_unroll", "c": p, "n": n, "iv": iv, "afo": r.random() < 0.5, "ru": r.random() < 0.6,
                   "ign": r.choice(["CK", ["CK", "QN"], "QN", ["QN"], None]) if big else r.choice(["clk", "clk", ["clk"], None]),
                   "dq": ["D", "Q"] if big else ["d", "q"], "src": "SEQ"}


def run_case(case, ctx):
    import circuitgraph as cg

    c = build(case["c"], case.get("ord"))
    exc, uc, iomap = "", None, {}
    if case["op"] == "unroll":
        try:
            uc, iomap = cg.tx.unroll(c, case["n"], {k: v for k, v in case["sio"]})
        except Exception as e:
            exc = type(e).__name__
        return {"kind": "unroll", "c": case["c"], "n": case["n"], "sio": case["sio"], "uc": proj(uc) if uc is not None else {},
                "iomap": [[k, list(v)] for k, v in sorted(iomap.items())], "exc": exc,
                "nontrivial": case["n"] >= 2 and bool(case["sio"])}
    iv = case["iv"]
    arg = iv if (iv is None or isinstance(iv, str)) else {k: v for k, v in iv}
    dpin, qpin = case.get("dq", ["d", "q"])
    if case.get("ign", "clk") is None:
        try:   # an earlier call on the same object (other pin handling) must leave no trace in the circuit or its blackboxes
            cg.tx.sequential_unroll(c, 1, dpin, qpin, ignore_pins=["clk"] if dpin == "d" else ["CK"], remove_unloaded=True)
        except Exception:
            pass
    if case["n"] % 2 == 0:
        try:   # the same object and arguments except remove_unloaded: nothing of that call may be reused
            cg.tx.sequential_unroll(c, case["n"], dpin, qpin, ignore_pins=case.get("ign", "clk"), add_flop_outputs=case["afo"],
                                    initial_values=arg, remove_unloaded=not case["ru"])
        except Exception:
            pass
    try:
        uc, iomap = cg.tx.sequential_unroll(c, case["n"], dpin, qpin, ignore_pins=case.get("ign", "clk"), add_flop_outputs=case["afo"],
                                            initial_values=arg, remove_unloaded=case["ru"])
    except Exception as e:
        exc = type(e).__name__
    insts = sorted(c.blackboxes)
    if iv is None:
        init = [[i, "free"] for i in insts]
    elif isinstance(iv, str):
        init = [[i, iv] for i in insts]
    else:
        d = {k: v for k, v in iv}
        init = [[i, d.get(i, "free")] for i in insts]
    ign = case.get("ign", "clk")
    return {"kind": "sequential_unroll", "c": case["c"], "n": case["n"], "d": dpin, "q": qpin, "add_flop_outputs": case["afo"],
            "ignore": [] if ign is None else [ign] if isinstance(ign, str) else list(ign), "remove_unloaded": case["ru"],
            "init": init, "uc": proj(uc) if uc is not None else {}, "iomap": [[k, list(v)] for k, v in sorted(iomap.items())],
            "exc": exc, "nontrivial": case["n"] >= 2}


def negctl(e, rng):
    """Invert, inside the first copy of the recorded unrolled circuit, a gate that is a primary output of c (circuits
    without x): the node io_map gives for that output at step 0 then carries the complement."""
    if e["exc"] or not e["uc"] or "x" in e["c"]["ty"] or "x" in e["uc"]["ty"]:
        return []
    p = e["c"]
    flip = {"and": "nand", "nand": "and", "or": "nor", "nor": "or", "xor": "xnor", "xnor": "xor", "not": "buf"}
    outs = [n for n, o, t, f in zip(p["names"], p["out"], p["ty"], p["fi"]) if o and t in flip and f]
    uc = copy.deepcopy(e["uc"])
    rng.shuffle(outs)
    for o in outs:
        nm = "unrolled_0_" + o
        if nm in uc["names"]:
            i = uc["names"].index(nm)
            if uc["ty"][i] in flip:
                uc["ty"][i] = flip[uc["ty"][i]]
                c = dict(e)
                c["uc"] = uc
                c["corruption"] = "gate %s inverted in the recorded unrolled circuit" % nm
                return [c]
    return []

"""C06 - hierarchical composition is functional substitution."""
import copy

from ..proj import build, proj

ID = "C06"
LEVEL = "model_checking"
RULE = ("Traces of add_subcircuit / fill_blackbox / strip_blackboxes judged by TLC (JudgeComp): structural clauses (node "
        "set, parent io, registry with prefixed sub-blackboxes, untouched pre-existing nodes, requested connections "
        "present) and the semantic clause (spliced copy computes the child's function of its attached nets; every "
        "pre-existing node keeps its function), by Kleene truth tables over the result's free signals. Parents: random "
        "DAGs with/without flops; children: a library (half adder, constant inside, blackbox inside, feed-through "
        "input/output, single node, two outputs) and random small circuits; every child io connected or not, inputs "
        "fed from arbitrary parent nets, outputs driving fresh buffers, strip_io both ways, the same child "
        "instantiated twice, fill after add_blackbox; strip_blackboxes with ignore_pins None / str / list incl. pin "
        "names that are substrings of each other. MC: the API machine MCApi covers add_subcircuit / fill_blackbox "
        "histories (shared with C07). distinct = distinct events; non-trivial = at least one connection made or a "
        "blackbox involved")


def config(tier):
    q = tier == "quick"
    return {
        "hashseeds": [0, 1] if q else [0, 1, 2, 3, 4, 5, 6, 7],
        "families": [],
        "mc": [{"module": "MCApi", "cfg": "MCApi", "workers": 6, "timeout": 1500}],
        "shards": 8 if q else 16,
        "negctl": 12,
        "emit": [{"name": "comp", "module": "MCApi", "cfg": "MCApiComp", "workers": 8, "env": {}}],
    }


def child_library():
    from .C07 import children

    return children()


def rand_child(r):
    from .. import gen

    c = gen.rand_circuit(r, n_in=r.randint(1, 3), n_gates=r.randint(1, 5), max_fanin=3, consts=0.3, out_is_input=0.25, name="kid")
    if r.random() < 0.25:
        gen.add_flops(r, c, 1)
    return proj(c)


def cases(ctx):
    from .. import gen
    from . import C07

    # spec -> code: every transition of the composition-focused config of the API machine, replayed on a real Circuit
    for k, t in enumerate(ctx.emitted("comp")):
        yield {"op": "transition", "t": t, "k": k, "src": "TLCSTEP"}

    # two instances of one cell given the SAME connection-map object (inputs only): both must be wired as the map says
    for j in range(6 if ctx.quick else 40):
        r = ctx.rng("C06reuse", j)
        bbd = {"type": "ff", "ins": ["clk", "d"], "outs": ["q"]}
        nets = ["a", "b", "g"]
        conns = [["d", [r.choice(nets)]], ["clk", [r.choice(nets)]]]
        calls = [{"op": "add", "a": {"n": n, "t": "input", "fanin": [], "fanout": [], "output": False, "uid": False}} for n in ("a", "b")]
        calls.append({"op": "add", "a": {"n": "g", "t": r.choice(["and", "xor"]), "fanin": ["a", "b"], "fanout": [], "output": True, "uid": False}})
        calls.append({"op": "add_blackbox", "a": {"bb": bbd, "name": "u1", "conns": conns}})
        calls.append({"op": "add_blackbox", "a": {"bb": bbd, "name": "u2", "conns": conns, "reuse_conns": True}})
        yield {"op": "history", "init": None, "calls": calls, "src": "REUSE"}
    lib = child_library()
    n = 120 if ctx.quick else 2000
    for j in range(n):
        r = ctx.rng("C06", j)
        parent = gen.rand_circuit(r, n_in=r.randint(1, 4), n_gates=r.randint(1, 7), max_fanin=3, out_is_input=0.2)
        if r.random() < 0.3:
            gen.add_flops(r, parent, 1)
        kid = rand_child(r) if r.random() < 0.6 else lib[r.choice(sorted(lib))]
        yield {"op": "add_subcircuit", "p": proj(parent), "sc": kid, "salt": j, "strip": r.random() < 0.8,
               "twice": r.random() < 0.4, "src": "SUB"}
        if not kid["bbs"] or True:
            yield {"op": "fill_blackbox", "p": proj(parent), "sc": kid, "salt": j, "src": "FILL"}
        seq = gen.rand_circuit(r, n_in=r.randint(1, 3), n_gates=r.randint(2, 6), max_fanin=3)
        import circuitgraph as cg

        bbt = r.choice([cg.BlackBox("ff", ["clk", "d"], ["q"]), cg.BlackBox("jk", ["CK", "K", "d"], ["q", "qn"])])
        add_flops_typed(r, seq, r.randint(1, 2), bbt)
        ign = r.choice([None, "clk", ["clk"], "CK", ["CK"], ["q"], "qn", ["K", "CK"], "d"])
        if r.random() < 0.3:
            # hierarchical instance name: the pin is what follows the LAST dot
            import networkx as nx

            old = sorted(seq.blackboxes)[0]
            seq.blackboxes["core." + old] = seq.blackboxes.pop(old)
            nx.relabel_nodes(seq.graph, {n: "core." + n for n in list(seq.graph.nodes) if n.startswith(old + ".")}, copy=False)
        if r.random() < 0.1:
            # a net that already carries the name an exposed pin would get: must be refused loudly, never merged
            import networkx as nx

            b0 = sorted(seq.blackboxes)[0]
            tgt = "%s_q_net" % b0
            if tgt in seq.graph:
                nx.relabel_nodes(seq.graph, {tgt: ("%s_q" % b0).replace(".", "_")}, copy=False)
        yield {"op": "strip_blackboxes", "c": proj(seq), "ignore": ign, "src": "STRIP"}


def add_flops_typed(r, c, k, bbt):
    """Flops of an arbitrary blackbox type: d pin driven, every other input pin driven by a shared input named
    like the pin, q drives a buf used by logic, other outputs drive an output buf or stay unconnected."""
    g = c.graph
    nodes = [n for n in g.nodes]
    for j in range(k):
        inst = "r%d" % j
        c.blackboxes[inst] = bbt
        for p in sorted(bbt.inputs()):
            g.add_node("%s.%s" % (inst, p), type="bb_input", output=False)
            if p == "K" and r.random() < 0.5:
                continue                       # an input pin left unconnected (it is still a pin of the instance)
            if p == "d":
                g.add_edge(r.choice(nodes), "%s.d" % inst)
            else:
                if p not in g:
                    g.add_node(p, type="input", output=False)
                g.add_edge(p, "%s.%s" % (inst, p))
        for p in sorted(bbt.outputs()):
            g.add_node("%s.%s" % (inst, p), type="bb_output", output=False)
            if p == "q" or r.random() < 0.5:
                b = "%s_%s_net" % (inst, p)
                g.add_node(b, type="buf", output=True)
                g.add_edge("%s.%s" % (inst, p), b)
    return c


def _conn_add_sub(r, p, sc_p, strip):
    """Choose a connection map: inputs from parent nets (not bb_input pins, not bb_outputs), outputs to fresh bufs."""
    conns = []
    extra = []
    srcs = [n for n, t in zip(p["names"], p["ty"]) if t not in ("bb_input", "bb_output")]
    ins = [n for n, t in zip(sc_p["names"], sc_p["ty"]) if t == "input"]
    outs = [n for n, o, t in zip(sc_p["names"], sc_p["out"], sc_p["ty"]) if o and t != "input"]
    if strip:
        for i in ins:
            if r.random() < 0.8 and srcs:
                conns.append([i, [r.choice(srcs)]])
    for k, o in enumerate(outs):
        if r.random() < 0.8:
            extra.append("w%d" % k)
            conns.append([o, ["w%d" % k]])
    r.shuffle(conns)
    return conns, extra


def run_case(case, ctx):
    import circuitgraph as cg

    if case["op"] == "transition":
        from . import C07

        return C07.run_transition(case, ctx)
    if case["op"] == "history":
        from . import C07

        return C07.run_case(dict(case, op=None), ctx)
    r = ctx.rng("C06run", case.get("salt", 0), case["op"])
    evs = []
    if case["op"] == "add_subcircuit":
        p = build(case["p"], case.get("ord"))
        sc = build(case["sc"], case.get("ord"))
        names = ["u0", "u1"] if case["twice"] else ["u0"]
        if r.random() < 0.25:
            kid_nets = [n for n, t in zip(case["sc"]["names"], case["sc"]["ty"]) if t not in ("input", "bb_input", "bb_output") and "." not in n]
            if kid_nets:
                inst = "u0_" + r.choice(sorted(kid_nets))
                if inst not in p.blackboxes and not any(n.startswith(inst + ".") for n in p.nodes()):
                    p.add_blackbox(cg.BlackBox("ff", ["d"], ["q"]), inst, {"d": sorted(n for n in p.nodes() if p.type(n) not in ("bb_input", "bb_output"))[0]})
        for name in names:
            pp = proj(p)
            conns, extra = _conn_add_sub(r, pp, case["sc"], case["strip"])
            for w in extra:
                p.add(w, "buf", output=True, uid=False) if w not in p else None
            pre = proj(p)
            exc = ""
            try:
                p.add_subcircuit(sc, name, {k: (v[0] if len(v) == 1 else v) for k, v in conns}, strip_io=case["strip"])
            except Exception as e:
                exc = type(e).__name__
            evs.append({"kind": "add_subcircuit", "p": pre, "sc": case["sc"], "name": name, "conns": conns,
                        "strip": case["strip"], "r": proj(p), "exc": exc, "nontrivial": bool(conns or case["sc"]["bbs"])})
            # fresh output buffers of the first instance must be distinct from the second's
            p.relabel({w: "%s_%s" % (name, w) for w in extra if w in p})
        return evs
    if case["op"] == "fill_blackbox":
        p = build(case["p"], case.get("ord"))
        scp = case["sc"]
        sc = build(scp)
        ins = sorted(sc.inputs())
        outs = sorted(sc.outputs())
        if set(ins) & set(outs) or not outs:
            return []
        bb = cg.BlackBox("sub", ins, outs)
        srcs = [n for n in p.nodes() if p.type(n) not in ("bb_input", "bb_output")]
        conns = {}
        for i in ins:
            if r.random() < 0.85:
                conns[i] = r.choice(sorted(srcs))
        for k, o in enumerate(outs):
            if r.random() < 0.85:
                p.add("fw%d" % k, "buf", output=True)
                conns[o] = "fw%d" % k
        order = r.random() < 0.5
        p.add_blackbox(bb, "inst", conns)
        if r.random() < 0.4:
            # other instances whose names start with the filled instance's name
            p.add_blackbox(cg.BlackBox("ff", ["d"], ["q"]), "inst0", {"d": sorted(srcs)[0]})
            p.add_blackbox(cg.BlackBox("ff", ["d"], ["q"]), "inst_b", {"d": sorted(srcs)[-1]})
        if order:  # some unrelated edit between add_blackbox and fill_blackbox
            p.add("later", "not", fanin=sorted(srcs)[0], output=True)
        wired = [o for o in outs if o in conns]
        if wired and r.random() < 0.3:
            # the caller breaks a pin, tries to fill (must be refused), repairs the pin: the fill must then work as if
            # nothing had happened in between
            o = r.choice(sorted(wired))
            pin = "inst.%s" % o
            p.remove(pin)
            p.add(pin, "buf", fanout=conns[o])
            try:
                p.fill_blackbox("inst", sc)
            except ValueError:
                pass
            p.remove(pin)
            p.add(pin, "bb_output", fanout=conns[o])
        pre = proj(p)
        exc = ""
        try:
            p.fill_blackbox("inst", sc)
        except Exception as e:
            exc = type(e).__name__
        return {"kind": "fill_blackbox", "p": pre, "sc": scp, "name": "inst", "r": proj(p), "exc": exc, "nontrivial": True}
    c = build(case["c"], case.get("ord"))
    ign = case["ignore"]
    exc, res = "", None
    try:
        res = cg.tx.strip_blackboxes(c, ignore_pins=ign)
    except Exception as e:
        exc = type(e).__name__
    if exc == "ValueError":
        pins = {n.replace(".", "_") for n in c.nodes() if c.type(n) in ("bb_input", "bb_output")}
        if pins & set(c.nodes()):
            ctx.count("strip_blackboxes_name_overlap_rejected_loudly")      # outside the domain: a loud rejection
            return []
    ilist = [] if ign is None else [ign] if isinstance(ign, str) else list(ign)
    return {"kind": "strip_blackboxes", "c": case["c"], "ignore": ilist, "r": proj(res) if res is not None else {},
            "exc": exc, "nontrivial": True}


def negctl(e, rng):
    r = copy.deepcopy(e.get("r") or {})
    if not r or "x" in r["ty"] or e["exc"]:
        return []
    flip = {"and": "nand", "nand": "and", "or": "nor", "nor": "or", "xor": "xnor", "xnor": "xor", "not": "buf"}
    if e["kind"] == "strip_blackboxes":
        pre = set(e["c"]["names"])
        pre_x = "x" in e["c"]["ty"]
    else:
        pre = {"%s_%s" % (e["name"], n) for n, t in zip(e["sc"]["names"], e["sc"]["ty"]) if t != "input"}
        pre_x = "x" in e["sc"]["ty"] or "x" in e["p"]["ty"]
    if pre_x:
        return []
    gates = [i for i, t in enumerate(r["ty"]) if t in flip and r["fi"][i] and r["names"][i] in pre]
    if not gates:
        return []
    i = rng.choice(gates)
    r["ty"][i] = flip[r["ty"][i]]
    c = dict(e)
    c["r"] = r
    c["corruption"] = "type of gate %s inverted in the recorded result" % r["names"][i]
    return [c]

"""C20 - lint decides well-formedness, and library outputs pass it."""
import copy
import itertools

from ..proj import NOTYPE, build, proj

ID = "C20"
LEVEL = "model_checking"
RULE = ("lint events: one per graph with the outcome of cg.lint under all 16 flag combinations (fail_fast, unloaded, "
        "undriven, single_input_gates), graphs built directly on the networkx graph: TLC-enumerated L2 (all 98304 two-node "
        "graphs over names {a,b,i.d,i.q} x 16 type attributes incl. missing/unsupported x all edge sets incl. self-loops x "
        "registry {none,{i}}; seeded slice in quick), seeded random ill-formed graphs on 3-5 nodes with two instances, and "
        "well-formed random circuits; lint_output events: every circuit produced by logic generators, composition calls, "
        "function-preserving transforms from lint-clean arguments. Judged by TLC against CGLint!LintOK. distinct = distinct "
        "events; non-trivial = graph violates at least one rule under some flag combination, or is a library output")
FLAGS = list(itertools.product([True, False], repeat=4))


def config(tier):
    q = tier == "quick"
    return {
        "hashseeds": [0] if q else [0, 1, 2, 3],
        "families": ["L2"],
        "mc": [],
        "shards": 8 if q else 16,
        "negctl": 12,
    }


ALLT = ["buf", "not", "and", "nand", "or", "nor", "xor", "xnor", "0", "1", "x", "input", "bb_input", "bb_output", NOTYPE, "foo",
        "AND", "Input", "BUF", "Bb_input", "X"]


def rand_ill(rng):
    # i0 / ij are NOT instances (their names merely start with a registered instance's name)
    names = rng.sample(["a", "b", "c", "i.d", "i.q", "j.d", "j.q", "k.z", "i0.d", "ij.q"], rng.randint(3, 5))
    n = len(names)
    ty = [rng.choice(ALLT) if rng.random() < 0.5 else
          ("bb_input" if nm.endswith(".d") else "bb_output" if nm.endswith(".q") else rng.choice(["input", "and", "buf", "or", "not"]))
          for nm in names]
    fi = [sorted(j + 1 for j in range(n) if rng.random() < 0.25) for _ in range(n)]
    regs = []
    for inst in ("i", "j"):
        if rng.random() < 0.6:
            regs.append({"inst": inst, "type": "ff", "ins": ["d"], "outs": ["q"]})
    return {"name": "ill", "n": n, "names": names, "ty": ty, "out": [rng.random() < 0.3 for _ in range(n)],
            "fi": fi, "bbs": regs, "acyc": False}


def many_violations(rng):
    """12-16 nodes, most of them wrong in some way."""
    n = rng.randint(12, 16)
    names = ["v%d" % i for i in range(n)]
    ty = [rng.choice(["foo", NOTYPE, "input", "0", "buf", "not", "and", "bb_output"]) for _ in names]
    fi = [sorted(rng.sample(range(1, n + 1), rng.choice([0, 1, 2, 3]))) for _ in names]
    return {"name": "many", "n": n, "names": names, "ty": ty, "out": [rng.random() < 0.2 for _ in names], "fi": fi, "bbs": [], "acyc": False}


def producers(ctx, r):
    """(producer name, thunk) pairs; every thunk returns a circuit built from lint-clean arguments."""
    import circuitgraph as cg
    from .. import gen

    c = gen.rand_circuit(r, n_in=r.randint(2, 5), n_gates=r.randint(3, 10), max_fanin=4)
    c2 = gen.rand_circuit(r, n_in=r.randint(2, 4), n_gates=r.randint(2, 6), max_fanin=3)
    seqc = gen.add_flops(r, gen.rand_circuit(r, n_in=r.randint(2, 4), n_gates=r.randint(3, 8)), n_flops=r.randint(1, 2))
    w = r.randint(1, 6)
    out = [
        ("logic.adder", lambda: cg.logic.adder(w, carry_in=r.random() < 0.5, carry_out=r.random() < 0.5)),
        ("logic.mux", lambda: cg.logic.mux(r.randint(1, 9))),
        ("logic.popcount", lambda: cg.logic.popcount(r.randint(1, 9))),
        ("logic.popcount(even)", lambda: cg.logic.popcount(r.choice([6, 10, 12, 14]))),
        ("logic.half_adder", cg.logic.half_adder),
        ("logic.full_adder", cg.logic.full_adder),
        ("tx.limit_fanin", lambda: cg.tx.limit_fanin(c, 2)),
        ("tx.limit_fanout", lambda: cg.tx.limit_fanout(c, 2)),
        ("tx.ternary", lambda: cg.tx.ternary(c)[0]),
        ("tx.miter", lambda: cg.tx.miter(c)),
        ("tx.acyclic_unroll", lambda: cg.tx.acyclic_unroll(c)),
        ("tx.strip_blackboxes", lambda: cg.tx.strip_blackboxes(seqc)),
        ("tx.sequential_unroll", lambda: cg.tx.sequential_unroll(seqc, r.randint(1, 3), "d", "q", ignore_pins="clk")[0]),
        ("tx.insert_registers", lambda: cg.tx.insert_registers(c, 1)),
        ("tx.relabel", lambda: cg.tx.relabel(c, {n: "r_" + n for n in c.nodes()})),
        ("copy", c.copy),
    ]

    def comp():
        p = c.copy()
        conns = {}
        pn = sorted(p.nodes())
        for i in sorted(c2.inputs()):
            conns[i] = r.choice(pn)
        for o in sorted(c2.outputs() - c2.inputs()):
            p.add("w_" + o, "buf", output=True)
            conns[o] = "w_" + o
        p.add_subcircuit(c2, "u0", conns)
        return p

    out.append(("add_subcircuit", comp))

    def comp_nested(strip):
        def f():
            p = c.copy()
            conns = {}
            pn = sorted(n for n in p.nodes())
            if strip:
                for i in sorted(seqc.inputs()):
                    conns[i] = r.choice(pn)
            for o in sorted(seqc.outputs() - seqc.inputs()):
                p.add("v_" + o, "buf", output=True)
                conns[o] = "v_" + o
            p.add_subcircuit(seqc, "u1", conns, strip_io=strip)
            return p
        return f

    out.append(("add_subcircuit_nested_bb", comp_nested(True)))
    out.append(("add_subcircuit_nested_bb_keep_io", comp_nested(False)))

    def fill():
        p = cg.Circuit("par")
        for i in sorted(seqc.inputs()):
            p.add("pi_" + i, "input")
        bb = cg.BlackBox("sub", seqc.inputs(), seqc.outputs())
        conns = {i: "pi_" + i for i in seqc.inputs()}
        for o in sorted(seqc.outputs()):
            if o not in seqc.inputs():
                p.add("po_" + o, "buf", output=True)
                conns[o] = "po_" + o
        p.add_blackbox(bb, "inst", conns)
        p.fill_blackbox("inst", seqc)
        return p

    out.append(("fill_blackbox_nested_bb", fill))

    # readers: what the parsers build from text the writers emit for lint-clean circuits (constants 0/1/x included)
    cx = gen.rand_circuit(r, n_in=r.randint(1, 3), n_gates=r.randint(2, 6), consts=0.5, xconst=0.5)
    k = r.choice(["0", "1", "x"])
    cx.add("kc", k)
    cx.add("kc_load", "and", fanin=["kc", sorted(cx.inputs())[0]], output=True)
    bbs = list({id(b): b for b in seqc.blackboxes.values()}.values())
    out.append(("io.verilog_to_circuit(gates)", lambda: cg.io.verilog_to_circuit(cg.io.circuit_to_verilog(cx), cx.name)))
    out.append(("io.verilog_to_circuit(assign)", lambda: cg.io.verilog_to_circuit(cg.io.circuit_to_verilog(cx, behavioral=True), cx.name)))
    out.append(("io.verilog_to_circuit(blackboxes)", lambda: cg.io.verilog_to_circuit(cg.io.circuit_to_verilog(seqc), seqc.name, blackboxes=bbs)))
    out.append(("io.verilog_to_circuit(fast)", lambda: cg.io.verilog_to_circuit(cg.io.circuit_to_verilog(c), c.name, fast=True)))
    out.append(("io.bench_to_circuit", lambda: cg.io.bench_to_circuit(cg.io.circuit_to_bench(c), c.name)))

    def fast_layout():
        # the fast parser on text inside its documented subset with declarations / lists wrapped over lines and tabs
        from .. import vlog

        for _ in range(20):
            # with blackbox instances half of the time: an input pin tied to a constant may be the only use of that constant
            # (a netlist that leaves an input pin of an instance open is not a lint-clean argument: those are skipped)
            p = vlog.fast_program(r, bb=r.choice([0.0, 0.5]))
            ins_of = {t["type"]: set(t["ins"]) for t in p["bbtypes"]}
            open_pin = any(ins_of[it["type"]] - {pn for pn, e in it["conns"] if e is not None} for it in p["items"] if it["k"] == "bb")
            if not open_pin and not {"tie0", "tie1"} & ((set(p["outputs"]) | set(p["wires"])) - set(p["inputs"])):
                break
        else:
            p = vlog.fast_program(r, bb=0.0)
        bbs2 = [cg.BlackBox(t["type"], t["ins"], t["outs"]) for t in p["bbtypes"]]
        return cg.io.verilog_to_circuit(vlog.fast_subset_text(p, r), p["name"], blackboxes=bbs2, fast=True)

    out.append(("io.verilog_to_circuit(fast, free layout)", fast_layout))
    return out


def cases(ctx):
    rng = ctx.rng("C20")
    l2 = ctx.family("L2")
    sel = rng.sample(l2, 5000) if ctx.quick else l2
    for p in sel:
        yield {"op": "lint", "c": p, "src": "L2"}
    for j in range(1500 if ctx.quick else 30000):
        yield {"op": "lint", "c": rand_ill(ctx.rng("C20ill", j)), "src": "ILL"}
    for j in range(40 if ctx.quick else 400):
        yield {"op": "lint", "c": many_violations(ctx.rng("C20many", j)), "src": "MANY"}
    from .. import gen

    for j in range(100 if ctx.quick else 1000):
        r = ctx.rng("C20ok", j)
        c = gen.rand_circuit(r, n_in=r.randint(1, 4), n_gates=r.randint(1, 8))
        if r.random() < 0.4:
            gen.add_flops(r, c, 1)
        yield {"op": "lint", "c": proj(c), "src": "G3"}
    for j in range(12 if ctx.quick else 120):
        yield {"op": "outputs", "salt": j, "src": "PROD"}


def run_case(case, ctx):
    import circuitgraph as cg

    if case["op"] == "lint":
        p = case["c"]
        c = build(p, case.get("ord"))
        runs = []
        for ff, ul, ud, si in FLAGS:
            exc = ""
            try:
                cg.lint(c, fail_fast=ff, unloaded=ul, undriven=ud, single_input_gates=si)
            except Exception as e:
                exc = type(e).__name__
            runs.append({"fail_fast": ff, "unloaded": ul, "undriven": ud, "single_input_gates": si, "exc": exc})
        return {"kind": "lint", "c": p, "runs": runs, "nontrivial": any(r["exc"] for r in runs)}
    evs = []
    r = ctx.rng("C20prod", case["salt"])
    for name, thunk in producers(ctx, r):
        try:
            res = thunk()
        except Exception as e:  # the producers' own properties are judged elsewhere (C05, C09 ...)
            continue
        exc = ""
        try:
            cg.lint(res)
        except Exception as e:
            exc = type(e).__name__
        evs.append({"kind": "lint_output", "producer": name, "r": proj(res), "lint_exc": exc, "nontrivial": True})
    return evs


def negctl(e, rng):
    if e["kind"] != "lint":
        return []
    c = copy.deepcopy(e)
    j = rng.randrange(len(c["runs"]))
    c["runs"][j]["exc"] = "" if c["runs"][j]["exc"] else "ValueError"
    c["corruption"] = "outcome of one lint call flipped"
    return [c]

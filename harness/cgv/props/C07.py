"""C07 - the construction API never leaves an illegally wired circuit (histories)."""
import copy
import json
import os

from ..proj import build, proj

ID = "C07"
LEVEL = "model_checking"
RULE = ("MC: CGApi as-built state machine (MCApi reach config from the empty circuit; MCApiStep inductive-step config from "
        "every legal circuit over the universe, one call with a rich argument space): LegalWiring in every reachable state. "
        "spec->code: TLC-simulated behaviours of MCApi replayed call by call into a real Circuit, abstract states compared. "
        "code->spec: seeded random histories (5-25 calls of add / connect / disconnect / remove / set_output / add_blackbox / "
        "add_subcircuit / fill_blackbox with valid, invalid, duplicate, self-referential, dotted and digit-initial arguments "
        "over a 12-name universe, from the empty circuit or a random circuit with flops) judged step by step by TLC "
        "(JudgeApi: invariants, action properties, and agreement with the as-built model); the repository's own test suite run "
        "with the mutators of Circuit wrapped (cgv.testtrace, no source change): every history the tests and the library code "
        "they call perform on circuits of <= 14 nodes (about 400 histories, 2000 calls) judged the same way (calls outside the "
        "property's list - set_type, relabel, parser-only forms of add - are opaque steps). distinct = distinct histories; "
        "non-trivial = history contains at least one rejected call and one accepted state-changing call")


def config(tier):
    q = tier == "quick"
    return {
        "hashseeds": [0, 1] if q else [0, 1, 2, 3],
        "families": [],
        "mc": [{"module": "MCApi", "cfg": "MCApi", "workers": 6, "timeout": 1500},
               {"module": "MCApi", "cfg": "MCApiStep", "workers": 6, "timeout": 1500}],
        "shards": 8 if q else 16,
        "negctl": 10,
        "sim": {"num": 300 if q else 5000, "depth": 8},
        "emit": [{"name": "conn", "module": "MCApi", "cfg": "MCApiConn", "workers": 8,
                  "env": {} if q else {"CONN_MAXEDGES": "2"}},
                 {"name": "comp", "module": "MCApi", "cfg": "MCApiComp", "workers": 8, "env": {}},
                 {"name": "add", "module": "MCApi", "cfg": "MCApiAdd", "workers": 8,
                  "env": {"CGV_EMIT_K": "25" if q else "3"}}],
    }


NAMES = ["a", "b", "c", "g", "h", "o", "i.d", "i.q", "j.in_0", "j.out", "1n", "g_0", "g ", " h"]    # names differing by blanks only, too
TYPES = ["input", "buf", "not", "and", "nand", "or", "nor", "xor", "xnor", "0", "1", "x", "bb_input", "bb_output", "foo"]
BBS = {
    "ff": {"type": "ff", "ins": ["d"], "outs": ["q"]},
    "mux": {"type": "mux", "ins": ["in_0", "in_1", "sel"], "outs": ["out"]},
    "d2": {"type": "d2", "ins": ["a"], "outs": ["y", "z"]},
}


def children():
    """Library of child circuits (as projections) for add_subcircuit / fill_blackbox."""
    import networkx as nx
    import circuitgraph as cg
    from ..proj import proj_graph

    out = {}
    g = nx.DiGraph()
    g.add_node("x", type="input", output=False)
    g.add_node("y", type="input", output=False)
    g.add_node("s", type="xor", output=True)
    g.add_node("c", type="and", output=True)
    g.add_edges_from([("x", "s"), ("y", "s"), ("x", "c"), ("y", "c")])
    out["ha"] = proj_graph(g, "ha")
    g = nx.DiGraph()
    g.add_node("d", type="input", output=False)
    g.add_node("k", type="1", output=False)
    g.add_node("q", type="nand", output=True)
    g.add_edges_from([("d", "q"), ("k", "q")])
    out["ffimpl"] = proj_graph(g, "ffimpl")     # matches blackbox ff
    g = nx.DiGraph()
    g.add_node("a", type="input", output=True)  # feed-through: input that is an output
    g.add_node("y", type="not", output=True)
    g.add_edge("a", "y")
    out["thru"] = proj_graph(g, "thru")
    g = nx.DiGraph()
    g.add_node("a", type="input", output=False)
    g.add_node("r.d", type="bb_input", output=False)
    g.add_node("r.q", type="bb_output", output=False)
    g.add_node("y", type="buf", output=True)
    g.add_node("z", type="not", output=True)
    g.add_edges_from([("a", "r.d"), ("r.q", "y"), ("a", "z")])
    out["d2impl"] = proj_graph(g, "d2impl", {"r": cg.BlackBox("ff", ["d"], ["q"])})  # matches d2, has a sub-blackbox
    g = nx.DiGraph()
    g.add_node("one", type="buf", output=True)
    out["one"] = proj_graph(g, "one")
    g = nx.DiGraph()           # ports whose own names start with an instance name and an underscore
    for n in ("a", "u0_a", "u1_a", "i_a"):
        g.add_node(n, type="input", output=False)
    g.add_node("y", type="xor", output=True)
    g.add_node("u0_y", type="and", output=True)
    g.add_edges_from([("a", "y"), ("u0_a", "y"), ("u1_a", "u0_y"), ("i_a", "u0_y"), ("a", "u0_y")])
    out["pfx"] = proj_graph(g, "pfx")
    g = nx.DiGraph()           # a port that nothing inside reads (left out of connection maps now and then)
    for n in ("a", "spare", "b"):
        g.add_node(n, type="input", output=False)
    g.add_node("y", type="nand", output=True)
    g.add_edges_from([("a", "y"), ("b", "y")])
    out["spare"] = proj_graph(g, "spare")
    return out


def pick_list(rng, present, maxlen=2):
    k = rng.choice([0, 1, 1, 1, 2, 2, 3][: maxlen + 4])
    res = []
    for _ in range(k):
        if present and rng.random() < 0.8:
            res.append(rng.choice(present))
        else:
            res.append(rng.choice(NAMES))
    return res


def gen_history(rng, kids):
    """A history is a list of calls (op + JSON arguments); generation looks at a shadow Circuit only to bias names."""
    import circuitgraph as cg
    from .. import gen

    init = None
    if rng.random() < 0.35:
        c = gen.rand_circuit(rng, n_in=rng.randint(1, 3), n_gates=rng.randint(1, 5), names=["a", "b", "c"])
        if rng.random() < 0.5:
            gen.add_flops(rng, c, 1)
        init = proj(c)
    calls = []
    present = list(init["names"]) if init else []
    insts = [b["inst"] for b in init["bbs"]] if init else []
    bufs = [n for n, t in zip(init["names"], init["ty"]) if t == "buf"] if init else []
    opins = [n for n, t in zip(init["names"], init["ty"]) if t == "bb_output"] if init else []
    ipins = [n for n, t in zip(init["names"], init["ty"]) if t == "bb_input"] if init else []
    for _ in range(rng.randint(5, 25)):
        r = rng.random()
        if rng.random() < 0.04:
            # a burst of uid adds of one base name: n, n_0, n_1, ... must all be fresh
            base = rng.choice(["a", "g", "t"])
            for _ in range(rng.randint(3, 13)):
                calls.append({"op": "add", "a": {"n": base, "t": rng.choice(["buf", "not", "and"]), "fanin": pick_list(rng, present, 0)[:1],
                                                 "fanout": [], "output": False, "uid": True}})
            present.append(base)
            continue
        if r < 0.10 and (opins or ipins):
            # pin-focused connects: list-valued targets / sources around blackbox pins
            if opins and (rng.random() < 0.6 or not ipins):
                vs = [rng.choice(bufs or present) for _ in range(rng.choice([1, 2, 2, 3]))]
                call = {"op": "connect", "a": {"us": [rng.choice(opins)], "vs": vs}}
            else:
                us = [rng.choice(present) for _ in range(rng.choice([1, 2, 2]))]
                call = {"op": "connect", "a": {"us": us, "vs": [rng.choice(ipins)]}}
        elif r < 0.36:
            n = rng.choice(NAMES) if rng.random() < 0.7 or not present else rng.choice(present)
            t = rng.choice(TYPES[:9] + ["buf", "buf"]) if rng.random() < 0.7 else rng.choice(TYPES)
            call = {"op": "add", "a": {"n": n, "t": t, "fanin": pick_list(rng, present), "fanout": pick_list(rng, present),
                                       "output": rng.random() < 0.3, "uid": rng.random() < 0.3}}
            present.append(n)
            if t == "buf":
                bufs.append(n)
            elif t == "bb_output":
                opins.append(n)
            elif t == "bb_input":
                ipins.append(n)
        elif r < 0.56:
            call = {"op": "connect", "a": {"us": pick_list(rng, present) or [rng.choice(NAMES)], "vs": pick_list(rng, present) or [rng.choice(NAMES)]}}
        elif r < 0.62:
            call = {"op": "disconnect", "a": {"us": pick_list(rng, present) or ["a"], "vs": pick_list(rng, present) or ["a"]}}
        elif r < 0.70:
            call = {"op": "remove", "a": {"ns": pick_list(rng, present, 1) or [rng.choice(NAMES)]}}
        elif r < 0.76:
            call = {"op": "set_output", "a": {"ns": pick_list(rng, present, 1) or [rng.choice(NAMES)], "val": rng.random() < 0.7}}
        elif r < 0.86:
            bb = rng.choice(sorted(BBS))
            name = rng.choice(["i", "j", "k", "1k"])
            conns = []
            pins = BBS[bb]["ins"] + BBS[bb]["outs"] + ["nopin"]
            for p in rng.sample(pins, rng.randint(0, 3)):
                tg = pick_list(rng, present, 0)[:2] or [rng.choice(NAMES)]
                conns.append([p, tg])
            call = {"op": "add_blackbox", "a": {"bb": BBS[bb], "name": name, "conns": conns}}
            insts.append(name)
            present += ["%s.%s" % (name, p) for p in BBS[bb]["ins"] + BBS[bb]["outs"]]
            opins += ["%s.%s" % (name, p) for p in BBS[bb]["outs"]]
            ipins += ["%s.%s" % (name, p) for p in BBS[bb]["ins"]]
        elif r < 0.94:
            kid = rng.choice(sorted(kids))
            sc = kids[kid]
            name = rng.choice(["u", "v", "i", "u"])
            io = [n for n, t, o in zip(sc["names"], sc["ty"], sc["out"]) if t == "input" or o] + ["zz"]
            conns = []
            for p in rng.sample(io, rng.randint(0, min(3, len(io)))):
                tg = pick_list(rng, present, 0)[:1] or [rng.choice(NAMES)]
                conns.append([p, tg])
            call = {"op": "add_subcircuit", "a": {"sc": sc, "name": name, "conns": conns, "strip": rng.random() < 0.8}}
            present += ["%s_%s" % (name, n) for n in sc["names"]]
        else:
            name = rng.choice(insts) if insts and rng.random() < 0.8 else rng.choice(["i", "j", "zz"])
            kid = rng.choice(["ffimpl", "ffimpl", "d2impl", "ha", "thru"])
            call = {"op": "fill_blackbox", "a": {"name": name, "sc": kids[kid]}}
            present += ["%s_%s" % (name, n) for n in kids[kid]["names"]]
        calls.append(call)
    return {"init": init, "calls": calls}


def sim_histories(ctx, num, depth):
    """spec -> code: behaviours simulated by TLC from MCApi (as-built state machine), one file per behaviour."""
    import re
    import shutil
    import subprocess

    from .. import tlc

    d = os.path.join(ctx.scratch, "sim_h%d" % ctx.hashseed)
    os.makedirs(d, exist_ok=True)
    r = tlc.run_tlc("MCApi", "MCApiSim", workers=1, timeout=600, scratch=ctx.scratch,
                    extra=["-simulate", "file=%s/tr,num=%d" % (d, num), "-depth", str(depth), "-seed", str(ctx.seed * 97 + ctx.hashseed + 1)])
    hist = []
    for fn in sorted(os.listdir(d)):
        txt = open(os.path.join(d, fn)).read()
        calls = []
        for m in re.finditer(r'last = "((?:[^"\\]|\\.)*)"', txt):
            s = json.loads('"' + m.group(1) + '"')
            if s:
                calls.append(json.loads(s))
        if calls:
            hist.append({"init": None, "calls": calls})
    shutil.rmtree(d, ignore_errors=True)
    return hist


def from_compact(s):
    """Circuit from the compact state record emitted by MCApi (spec -> code replay)."""
    import networkx as nx
    import circuitgraph as cg

    g = nx.DiGraph()
    for n, t, o in s["n"]:
        g.add_node(n, type=t, output=bool(o))
    for u, v in s["e"]:
        g.add_edge(u, v)
    bbs = {i: cg.BlackBox(t, ins, outs) for i, t, ins, outs in s["b"]}
    return cg.Circuit(graph=g, blackboxes=bbs)


def to_compact(c):
    g = c.graph
    return {"n": sorted([n, g.nodes[n].get("type", "<none>"), bool(g.nodes[n].get("output", False))] for n in g.nodes),
            "e": sorted([u, v] for u, v in g.edges),
            "b": sorted([k, b.name, sorted(b.inputs()), sorted(b.outputs())] for k, b in c.blackboxes.items())}


def norm_compact(s):
    return {"n": sorted([n, t, bool(o)] for n, t, o in s["n"]), "e": sorted([u, v] for u, v in s["e"]),
            "b": sorted([i, t, sorted(ins), sorted(outs)] for i, t, ins, outs in s["b"])}


def testsuite_histories(ctx):
    """The repository's own test suite run with the mutators of Circuit wrapped (cgv.testtrace): every API history the
    tests - and the library code they call - perform on small circuits, as api_history events."""
    import subprocess
    import sys
    import circuitgraph

    repo = os.path.dirname(os.path.dirname(os.path.abspath(circuitgraph.__file__)))
    out = os.path.join(ctx.scratch, "testtrace_%d.ndjson" % ctx.hashseed)
    # as in the pinned baseline: WITHOUT the pysat stand-in (the SAT-dependent tests fail on import and are not part of it;
    # with the slow stand-in they would run for hours on the bundled benchmark circuits)
    harness = os.path.dirname(os.path.dirname(os.path.dirname(os.path.abspath(__file__))))
    tmpd = os.path.join(ctx.scratch, "pytest_tmp_%d" % ctx.hashseed)      # the tests' own temporary files go away with the scratch dir
    os.makedirs(tmpd, exist_ok=True)
    env = dict(os.environ, CGV_TESTTRACE_OUT=out, PYTHONPATH=os.pathsep.join([harness, repo]), TMPDIR=tmpd)
    p = subprocess.run([sys.executable, "-m", "pytest", "-q", "-p", "no:cacheprovider", "-p", "cgv.testtrace", "--timeout=900",
                        "--continue-on-collection-errors", "tests"], cwd=repo, env=env, capture_output=True, text=True, timeout=600)
    ctx.count("testsuite_pytest_exit_%d" % p.returncode)
    evs = []
    if os.path.exists(out):
        with open(out) as f:
            for line in f:
                e = json.loads(line)
                e["nontrivial"] = len(e["steps"]) >= 3 or any(s["exc"] for s in e["steps"])
                e["tags"] = sorted({s["op"] for s in e["steps"] if s["exc"]})
                e["src"] = "TESTSUITE"
                evs.append(e)
    ctx.count("testsuite_histories", len(evs))
    ctx.count("testsuite_steps", sum(len(e["steps"]) for e in evs))
    return evs


def cases(ctx):
    yield {"op": "testsuite", "src": "TESTSUITE"}
    for name in ("conn", "add", "comp"):
        for k, t in enumerate(ctx.emitted(name)):
            yield {"op": "transition", "t": t, "k": k, "src": "TLCSTEP"}
    kids = children()
    n = 250 if ctx.quick else 4000
    for j in range(n):
        rng = ctx.rng("C07h", j)
        h = gen_history(rng, kids)
        h["src"] = "RAND"
        yield h
    if os.environ.get("CGV_NO_SIM") != "1":
        from ..runner import prop_module  # noqa

        sim = config(ctx.tier)["sim"]
        for h in sim_histories(ctx, sim["num"], sim["depth"]):
            h["src"] = "TLCSIM"
            yield h


_LAST_CONNS = {}


def apply_call(c, call):
    """Perform one recorded call through the public API.  Returns (exc type name or '', ret)."""
    import circuitgraph as cg

    a = call["a"]
    op = call["op"]
    s1 = lambda l: l[0] if len(l) == 1 else list(l)  # noqa: E731  (a single name is passed as a bare str)
    try:
        if op == "add":
            r = c.add(a["n"], a["t"], fanin=s1(a["fanin"]) if a["fanin"] else None, fanout=s1(a["fanout"]) if a["fanout"] else None,
                      output=a["output"], uid=a["uid"])
            return "", r
        if op == "connect":
            c.connect(s1(a["us"]), s1(a["vs"]))
        elif op == "disconnect":
            c.disconnect(s1(a["us"]), s1(a["vs"]))
        elif op == "remove":
            c.remove(s1(a["ns"]))
        elif op == "set_output":
            c.set_output(s1(a["ns"]), a["val"])
        elif op == "set_type":
            c.set_type(s1(a["ns"]), a["t"])
        elif op == "add_blackbox":
            bb = cg.BlackBox(a["bb"]["type"], a["bb"]["ins"], a["bb"]["outs"])
            conns = {p: s1(tg) for p, tg in a["conns"]}
            if a.get("reuse_conns") and _LAST_CONNS.get("d") is not None and _LAST_CONNS["spec"] == a["conns"]:
                conns = _LAST_CONNS["d"]          # the very same dict object the previous instance was given
            _LAST_CONNS["d"], _LAST_CONNS["spec"] = conns, a["conns"]
            c.add_blackbox(bb, a["name"], conns)
        elif op == "add_subcircuit":
            c.add_subcircuit(build(a["sc"]), a["name"], {p: s1(tg) for p, tg in a["conns"]}, strip_io=a["strip"])
        elif op == "fill_blackbox":
            c.fill_blackbox(a["name"], build(a["sc"]))
        elif op == "remove_unloaded":
            c.remove_unloaded(inputs=a["inputs"])
        else:
            raise RuntimeError("unknown op " + op)
        return "", ""
    except (ValueError, KeyError, TypeError, IndexError, AttributeError, NotImplementedError) as e:
        return type(e).__name__, ""


def run_transition(case, ctx):
    """One transition of the model replayed on the real object; abstract post-state, exception and return value
    compared with the model's.  Mismatches (and a 1/300 sample of matches) become events judged by TLC."""
    t = case["t"]
    c = from_compact(t["pre"])
    init = proj(c)
    exc, ret = apply_call(c, t["call"])
    same = to_compact(c) == norm_compact(t["post"]) and exc == t["exc"] and (ret or "") == t["ret"]
    ctx.count("transitions_replayed")
    if same and case["k"] % 300 != 0:
        return []
    if not same:
        ctx.count("transitions_mismatched")
    return {"kind": "api_history", "init": init, "nontrivial": True, "tags": [],
            "steps": [{"op": t["call"]["op"], "a": t["call"]["a"], "post": proj(c), "exc": exc, "ret": ret or ""}]}


def run_case(case, ctx):
    import circuitgraph as cg

    if case.get("op") == "transition":
        return run_transition(case, ctx)
    if case.get("op") == "testsuite":
        return testsuite_histories(ctx)
    c = build(case["init"]) if case.get("init") else cg.Circuit()
    init = proj(c)
    steps = []
    rejected = changed = 0
    prev = json.dumps(init, sort_keys=True)
    for call in case["calls"]:
        exc, ret = apply_call(c, call)
        post = proj(c)
        steps.append({"op": call["op"], "a": call["a"], "post": post, "exc": exc, "ret": ret or ""})
        cur = json.dumps(post, sort_keys=True)
        rejected += bool(exc)
        changed += (not exc and cur != prev)
        prev = cur
    return {"kind": "api_history", "init": init, "steps": steps, "nontrivial": bool(rejected and changed),
            "tags": sorted({s["op"] for s in steps if s["exc"]})}


def negctl(e, rng):
    """Insert an illegal edge into one recorded post-state (fan-in on an input) / make a rejected call add an edge."""
    c = copy.deepcopy(e)
    listed = ("add", "connect", "disconnect", "remove", "set_output", "add_blackbox", "add_subcircuit", "fill_blackbox", "remove_unloaded")
    for k in rng.sample(range(len(c["steps"])), len(c["steps"])):
        if c["steps"][k]["op"] not in listed:
            continue          # steps outside the property's list (set_type, opaque test-suite steps) are not charged with wiring
        p = c["steps"][k]["post"]
        ins = [i for i, t in enumerate(p["ty"]) if t in ("input", "0", "1") and not p["fi"][i]]
        if ins and p["n"] >= 2:
            i = rng.choice(ins)
            j = rng.choice([x for x in range(p["n"]) if x != i])
            p["fi"][i] = [j + 1]
            p["acyc"] = False
            c["corruption"] = "edge %s -> %s (an input/constant) inserted into the recorded state after step %d" % (p["names"][j], p["names"][i], k + 1)
            return [c]
    return []

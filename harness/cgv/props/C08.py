"""C08 - model counting and signal probability are exact; DIMACS export has the right projected count."""
import copy
import os
import shutil
import tempfile

from ..proj import build, proj
from . import C01

ID = "C08"
LEVEL = "model_checking"
RULE = ("Traces: sat.model_count, props.signal_probability(approx=False) and the DIMACS file captured from "
        "sat.approx_model_count (external counter replaced by a capturing stand-in) on G1 without x (exhaustive), G2 "
        "(seeded slice in quick), cyclic GC, small blackbox circuits, random DAGs with/without flops (<= 10 free "
        "signals); assumptions: none, single nodes, seeded pairs/triples incl. internal and contradictory ones; several "
        "hash seeds. Judged by TLC: count = |projection of satisfying patterns on startpoints| (truth-table sets; "
        "all-bits for cyclic circuits and captured CNF). distinct = distinct events; non-trivial = the expected count is "
        "not determined by the number of startpoints alone (assumptions present) or the circuit has >= 2 startpoints")
ASSUMPTIONS = C01.ASSUMPTIONS + ["signal_probability on circuits with blackboxes raises NotImplementedError loudly (subcircuit): outside the domain"]


def config(tier):
    q = tier == "quick"
    return {
        "hashseeds": [0, 1] if q else [0, 1, 2, 3, 4, 5, 6, 7],
        "families": ["G1", "G2", "W"],
        "mc": [{"module": "MCCount", "cfg": "MCCount", "workers": 4, "timeout": 900}],
        "shards": 8 if q else 16,
        "negctl": 16,
    }


def cases(ctx):
    rng = ctx.rng("C08")
    g1 = [p for p in ctx.family("G1") if C01.no_x(p)]
    g2 = ctx.family("G2")
    g2s = rng.sample(g2, 250 if ctx.quick else 1200)
    cyc = []
    for p in rng.sample(g2, 300 if ctx.quick else 1500):
        cyc += C01.cyclic_variants(p, rng)
    g1s = g1 if not ctx.quick else [p for i, p in enumerate(g1) if i % 2 == ctx.seed % 2]
    fams = [("G1", g1s), ("G2", g2s), ("GC", cyc), ("BB", C01.bb_small(rng)), ("W", ctx.family("W"))]
    for src, fam in fams:
        for i, p in enumerate(fam):
            r = ctx.rng("C08a", src, i)
            for a in C01.assumption_sets(p, r, True)[: (4 if ctx.quick else 9)]:
                yield {"op": "model_count", "c": p, "assum": a, "src": src}
            if not p["bbs"] and p["acyc"]:
                for node in range(1, p["n"] + 1):
                    if p["ty"][node - 1] not in ("0", "1") or True:
                        yield {"op": "signal_probability", "c": p, "node": node, "src": src}
            step = (9 if src in ("G1", "BB") else 40) if ctx.quick else (1 if src in ("G1", "BB") else 5)
            if i % step == (ctx.seed % step):
                for a in C01.assumption_sets(p, r, True)[:3]:
                    yield {"op": "dimacs", "c": p, "assum": a, "src": src}
    from .. import gen

    for j in range(30 if ctx.quick else 300):
        r = ctx.rng("C08g3", j)
        c = gen.rand_circuit(r, n_in=r.randint(1, 5 if ctx.quick else 6), n_gates=r.randint(3, 14), max_fanin=4)
        if r.random() < 0.4:
            gen.add_flops(r, c, n_flops=r.randint(1, 2))
        p = proj(c)
        for a in C01.assumption_sets(p, r, True)[:5]:
            yield {"op": "model_count", "c": p, "assum": a, "src": "G3"}
        if not p["bbs"]:
            for node in r.sample(range(1, p["n"] + 1), min(4, p["n"])):
                yield {"op": "signal_probability", "c": p, "node": node, "src": "G3"}


def parse_dimacs(text):
    ind, clauses, nv, nc = [], [], 0, 0
    for line in text.splitlines():
        line = line.strip()
        if not line:
            continue
        if line.startswith("c ind"):
            ind += [int(x) for x in line.split()[2:] if x != "0"]
        elif line.startswith("p cnf"):
            parts = line.split()
            nv, nc = int(parts[2]), int(parts[3])
        elif line.startswith("c"):
            continue
        else:
            toks = line.split()
            clauses.append([int(x) for x in toks[:-1]])
    return ind, clauses, nv, nc


def run_case(case, ctx):
    import circuitgraph as cg

    p = case["c"]
    c = build(p, case.get("ord"))
    ev = {"kind": case["op"], "c": p, "exc": ""}
    nsp = sum(1 for t in p["ty"] if t in ("input", "bb_output"))
    if case["op"] == "model_count":
        assum = {p["names"][i - 1]: (int(b) if (len(case["assum"]) + i) % 2 else b) for i, b in case["assum"]}   # bool or 0/1
        ev["assum"] = case["assum"]
        ev["nontrivial"] = bool(assum) or nsp >= 2
        try:
            ev["count"] = int(cg.sat.model_count(c, assum))
        except Exception as e:
            ev["exc"], ev["count"] = type(e).__name__, -1
        gates = sorted(n for n in c.nodes() if c.type(n) in ("and", "nand", "or", "nor", "xor", "xnor") and len(c.fanin(n)) >= 2)
        if gates and not case["assum"] and p["acyc"]:
            # same object, edited in place, counted again
            g = gates[len(gates) // 2]
            c.set_type(g, {"and": "or", "nand": "xor", "or": "nand", "nor": "and", "xor": "nor", "xnor": "and"}[c.type(g)])
            p2 = proj(c)
            ev2 = {"kind": "model_count", "c": p2, "assum": [[p2["names"].index(g) + 1, True]], "exc": "", "nontrivial": True}
            try:
                ev2["count"] = int(cg.sat.model_count(c, {g: True}))
            except Exception as e:
                ev2["exc"], ev2["count"] = type(e).__name__, -1
            return [ev, ev2]
    elif case["op"] == "signal_probability":
        ev["node"] = case["node"]
        ev["nontrivial"] = p["ty"][case["node"] - 1] not in ("input", "0", "1")
        try:
            pr = cg.props.signal_probability(c, p["names"][case["node"] - 1], approx=False)
            num, den = float(pr).as_integer_ratio()
            ev["num"], ev["den"] = int(num), int(den)
        except Exception as e:
            ev["exc"], ev["num"], ev["den"] = type(e).__name__, 0, 1
    else:  # dimacs
        assum = {p["names"][i - 1]: (int(b) if (len(case["assum"]) + i) % 2 else b) for i, b in case["assum"]}   # bool or 0/1
        ev["assum"] = case["assum"]
        ev["nontrivial"] = True
        cap = tempfile.mkdtemp(prefix="cap_", dir=ctx.scratch)
        os.environ["CGV_APPROXMC_CAPTURE"] = cap
        captured = {}
        orig = cg.sat.cnf

        def spy(cc):  # run-time wrapper: records the variable map of the encoding actually used
            f, v = orig(cc)
            captured["v"] = v
            return f, v

        cg.sat.cnf = spy
        try:
            ans = cg.sat.approx_model_count(c, assum)
            files = sorted(f for f in os.listdir(cap) if f.endswith(".cnf"))
            text = open(os.path.join(cap, files[-1])).read()
            ind, clauses, nv, nc = parse_dimacs(text)
            ev.update({"answer": int(ans), "ind": ind, "clauses": clauses, "hdr_nv": nv, "hdr_nclauses": nc})
            v = captured.get("v")
            ev["vars"] = [int(v.id(n)) for n in p["names"]] if v is not None else []
        except Exception as e:
            ev.update({"exc": type(e).__name__, "answer": -1, "ind": [], "clauses": [], "hdr_nv": 0, "hdr_nclauses": 0, "vars": []})
        finally:
            cg.sat.cnf = orig
            shutil.rmtree(cap, ignore_errors=True)
    return ev


def negctl(e, rng):
    c = copy.deepcopy(e)
    if e["kind"] == "model_count" and e["exc"] == "":
        c["count"] = e["count"] + 1
        c["corruption"] = "returned count off by one"
        return [c]
    if e["kind"] == "signal_probability" and e["exc"] == "":
        c["num"], c["den"] = e["num"] * 2 + 1, e["den"] * 2 * 2
        c["corruption"] = "probability changed"
        return [c]
    if e["kind"] == "dimacs" and e["exc"] == "" and e["ind"] and e["c"]["acyc"] and not e["assum"]:
        c["ind"] = e["ind"][:-1]
        c["corruption"] = "one startpoint dropped from the sampling set"
        return [c]
    return []

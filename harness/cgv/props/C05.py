"""C05 - fan-in / fan-out limiting, register insertion and acyclic_unroll (acyclic case) preserve function."""
import copy

from ..proj import build, proj

ID = "C05"
LEVEL = "model_checking"
RULE = ("cases: limit_fanin / limit_fanout on the TLC-enumerated families G1 (every gate type x fan-in 1..4 x operand "
        "kinds), W (one gate of fan-in 3..6 per multi-input type), G2 (all two-gate circuits; seeded slice in quick), "
        "seeded random DAGs (G3), k in 2..5; every case under every listed PYTHONHASHSEED; distinct = distinct "
        "(input, args, result) events; non-trivial = the transform changed the circuit (some gate above the bound)")


def config(tier):
    q = tier == "quick"
    return {
        "hashseeds": [0, 1] if q else [0, 1, 2, 3, 4, 5, 6, 7],
        "families": ["G1", "G2", "W"],
        "mc": [],
        "shards": 8 if q else 16,
        "negctl": 12,
    }


def cases(ctx):
    import circuitgraph as cg  # noqa

    rng = ctx.rng("C05")
    for i, p in enumerate(ctx.family("G1")):
        for k in (2, 3):
            if max(len(f) for f in p["fi"]) > k or i % 7 == 0:
                yield {"op": "limit_fanin", "c": p, "k": k, "src": "G1"}
    for p in ctx.family("W"):
        for k in (2, 3, 4, 5):
            yield {"op": "limit_fanin", "c": p, "k": k, "src": "W"}
    g2 = ctx.family("G2")
    sel = g2 if not ctx.quick else rng.sample(g2, 400)
    for p in sel:
        if max(len(f) for f in p["fi"]) > 2:
            yield {"op": "limit_fanin", "c": p, "k": 2, "src": "G2"}
    from .. import gen

    for j in range(60 if ctx.quick else 600):
        r = ctx.rng("C05g3", j)
        c = gen.rand_circuit(r, n_in=r.randint(2, 6), n_gates=r.randint(3, 16), max_fanin=5, xconst=0.1)
        k = r.choice([2, 2, 3, 4, 5])
        yield {"op": "limit_fanin", "c": proj(c), "k": k, "src": "G3"}
        yield {"op": "limit_fanout", "c": proj(c), "k": r.choice([2, 2, 3]), "src": "G3"}


def run_case(case, ctx):
    import circuitgraph as cg

    c = build(case["c"])
    exc, r = "", None
    try:
        if case["op"] == "limit_fanin":
            r = cg.tx.limit_fanin(c, case["k"])
        elif case["op"] == "limit_fanout":
            r = cg.tx.limit_fanout(c, case["k"])
    except Exception as e:  # recorded, judged by the specification
        exc = type(e).__name__
    ev = {"kind": case["op"], "k": case["k"], "c": case["c"], "exc": exc, "r": proj(r) if r is not None else {}}
    ev["nontrivial"] = bool(r is not None and (r.graph.number_of_nodes() != c.graph.number_of_nodes()))
    return ev


def negctl(e, rng):
    """Corrupt the recorded result: change one gate type / drop one edge.  Judge must reject."""
    r = copy.deepcopy(e["r"])
    if not r or not r.get("n"):
        return []
    gates = [i for i, t in enumerate(r["ty"]) if t in ("and", "nand", "or", "nor", "xor", "xnor") and len(r["fi"][i]) >= 2]
    if not gates:
        return []
    i = rng.choice(gates)
    flip = {"and": "nand", "nand": "and", "or": "nor", "nor": "or", "xor": "xnor", "xnor": "xor"}
    r["ty"][i] = flip[r["ty"][i]]
    c = dict(e)
    c["r"] = r
    c["corruption"] = "gate type of %s inverted in the recorded result" % r["names"][i]
    return [c]

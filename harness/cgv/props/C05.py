"""C05 - fan-in / fan-out limiting, register insertion and acyclic_unroll (acyclic case) preserve function."""
import copy

from ..proj import build, proj

ID = "C05"
LEVEL = "model_checking"
RULE = ("cases: limit_fanin / limit_fanout on the TLC-enumerated families G1 (every gate type x fan-in 1..4 x operand "
        "kinds), W (one gate of fan-in 3..6 per multi-input type), G2 (all two-gate circuits; seeded slice in quick), "
        "seeded random DAGs (G3), k in 2..5; every case under every listed PYTHONHASHSEED; distinct = distinct "
        "(input, args, result) events; non-trivial = the transform changed the circuit (some gate above the bound)")


def config(tier):
    q = tier == "quick"
    return {
        "hashseeds": [0, 1] if q else [0, 1, 2, 3, 4, 5, 6, 7],
        "families": ["G1", "G2", "W"],
        "mc": [{"module": "MCLimitFanin", "cfg": "MCLimitFanin", "workers": 4, "timeout": 900},
               {"module": "MCLoops", "cfg": "MCLimitFanout", "workers": 4, "timeout": 3600},
               {"module": "MCLoops", "cfg": "MCInsertRegs", "workers": 4, "timeout": 3600, "env": {} if q else {"MC_FULL": "1"}},
               {"module": "MCFas", "cfg": "MCFas", "workers": 4 if q else 8, "timeout": 5400, "env": {} if q else {"MC_FULL": "1"}}],
        "shards": 8 if q else 16,
        "negctl": 12,
    }


def cases(ctx):
    import circuitgraph as cg  # noqa

    rng = ctx.rng("C05")
    for i, p in enumerate(ctx.family("G1")):
        for k in (2, 3):
            if max(len(f) for f in p["fi"]) > k or i % 7 == 0:
                yield {"op": "limit_fanin", "c": p, "k": k, "src": "G1"}
    for p in ctx.family("W"):
        for k in (2, 3, 4, 5):
            yield {"op": "limit_fanin", "c": p, "k": k, "src": "W"}
        # repeated application: limit to k1, then limit the result to k2 < k1 (helper names must stay unique)
        for k1, k2 in ((5, 3), (4, 2), (3, 2)):
            yield {"op": "limit_fanin", "c": p, "k": k2, "k1": k1, "src": "W2"}
    g2 = ctx.family("G2")
    sel = g2 if not ctx.quick else rng.sample(g2, 400)
    for p in sel:
        if max(len(f) for f in p["fi"]) > 2:
            yield {"op": "limit_fanin", "c": p, "k": 2, "src": "G2"}
    from .. import gen

    for j in range(60 if ctx.quick else 600):
        r = ctx.rng("C05g3", j)
        c = gen.rand_circuit(r, n_in=r.randint(2, 6), n_gates=r.randint(3, 16), max_fanin=5, xconst=0.1, loaded_in_out=0.1)
        k = r.choice([2, 2, 3, 4, 5])
        yield {"op": "limit_fanin", "c": proj(c), "k": k, "src": "G3"}
        yield {"op": "limit_fanout", "c": proj(c), "k": r.choice([2, 2, 3]), "src": "G3"}
        if j % 2 == 0:
            yield {"op": "acyclic_unroll_acyclic", "c": proj(c), "k": 0, "src": "G3"}
        yield {"op": "insert_registers", "c": proj(c), "k": r.choice([1, 1, 2, 3]), "src": "G3"}
        if j % 4 == 0:
            yield {"op": "insert_registers", "c": proj(c), "k": r.choice([1, 2]), "latch": True, "src": "G3"}
    from .C18 import rand_cyclic

    n = 0
    for j in range(300):
        p = rand_cyclic(ctx.rng("C05cyc", j))
        if p is not None and "x" not in p["ty"]:
            n += 1
            yield {"op": "limit_fanout", "c": p, "k": 2, "src": "CYC"}
            yield {"op": "limit_fanin", "c": p, "k": 2, "src": "CYC"}
            if n >= (20 if ctx.quick else 200):
                break
    # the same (combinational) argument twice: nothing of the first call may be left behind
    for j in range(25 if ctx.quick else 250):
        r = ctx.rng("C05twice", j)
        c = gen.rand_circuit(r, n_in=r.randint(2, 4), n_gates=r.randint(3, 9), max_fanin=3)
        yield {"op": "insert_registers", "c": proj(c), "k": r.choice([1, 2]), "twice": True, "src": "TWICE"}
        # another suffix for the inserted q nets: the requested name may exist already (n1 + "" + "2" = n12), uid then picks another
        k, qs = r.choice([1, 2]), r.choice(["", "_", "_q_"])
        depth = {n: c.fanin_depth(n) for n in c.nodes()}
        inc = round(max(depth.values()) / (k + 1))
        at = sorted(n for n in depth if inc >= 1 and depth[n] == inc)
        other = sorted(n for n in c.nodes() if c.type(n) != "input" and n not in at)
        if at and other and r.random() < 0.7:
            # the name the first inserted q net asks for is taken: uid has to pick another one, and that one must be wired
            import networkx as nx

            nx.relabel_nodes(c.graph, {r.choice(other): "%s%s%d" % (r.choice(at), qs, inc)}, copy=False)
        yield {"op": "insert_registers", "c": proj(c), "k": k, "qs": qs, "src": "QSUF"}
    # FO: one driver (input / gate / inverter / output gate) with fan-out 1..9, k = 2..5
    for drv in ("input", "and", "not", "outgate", "const", "nand1", "nor1", "xnor1", "dupbuf"):
        for m in range(1, 10):
            p = fanout_circuit(drv, m)
            for k in (2, 3, 4, 5):
                yield {"op": "limit_fanout", "c": p, "k": k, "src": "FO"}
    for p in (g2 if not ctx.quick else rng.sample(g2, 150)):
        yield {"op": "acyclic_unroll_acyclic", "c": p, "k": 0, "src": "G2"}
        yield {"op": "insert_registers", "c": p, "k": 1, "src": "G2"}


def fanout_circuit(drv, m):
    import networkx as nx
    from ..proj import proj_graph

    g = nx.DiGraph()
    g.add_node("a", type="input", output=False)
    g.add_node("b", type="input", output=False)
    if drv == "input":
        d = "a"
    elif drv == "const":
        d = "one"
        g.add_node("one", type="1", output=False)
    elif drv in ("nand1", "nor1", "xnor1"):
        d = "d"                                  # a one-operand inverting gate: its loads see the complement of a
        g.add_node("d", type=drv[:-1], output=False)
        g.add_edge("a", "d")
    elif drv == "dupbuf":
        d = "a"                                  # a feeds parity gates directly AND through its buffer a_dup (the readers' shape)
        g.add_node("a_dup", type="buf", output=False)
        g.add_edge("a", "a_dup")
        for t in ("xor", "xnor"):
            g.add_node("p_" + t, type=t, output=True)
            g.add_edges_from([("a", "p_" + t), ("a_dup", "p_" + t), ("b", "p_" + t)])
    else:
        d = "d"
        g.add_node("d", type="and" if drv != "not" else "not", output=(drv == "outgate"))
        g.add_edge("a", "d")
        if drv != "not":
            g.add_edge("b", "d")
    types = ["and", "or", "xor", "nand", "nor", "xnor", "buf", "not", "and"]
    for j in range(m):
        t = types[j % len(types)]
        g.add_node("l%d" % j, type=t, output=True)
        g.add_edge(d, "l%d" % j)
        if t not in ("buf", "not"):
            g.add_edge("b", "l%d" % j)
    return proj_graph(g, "fo")


def run_case(case, ctx):
    import circuitgraph as cg

    c = build(case["c"], case.get("ord"))
    exc, r = "", None
    if case["op"] == "insert_registers":
        # domain: a stage boundary must exist (depth_inc = round(max_depth / (stages + 1)) >= 1)
        depth = max(c.fanin_depth(n) for n in c.nodes())
        if round(depth / (case["k"] + 1)) < 1:
            return []
    try:
        if case["op"] == "limit_fanin":
            r = cg.tx.limit_fanin(cg.tx.limit_fanin(c, case["k1"]), case["k"]) if case.get("k1") else cg.tx.limit_fanin(c, case["k"])
        elif case["op"] == "limit_fanout":
            r = cg.tx.limit_fanout(c, case["k"])
        elif case["op"] == "acyclic_unroll_acyclic":
            r = cg.tx.acyclic_unroll(c)
        elif case["op"] == "insert_registers":
            if case.get("latch"):   # a cell with d and q only: no other io to connect (explicit empty map)
                r = cg.tx.insert_registers(c, case["k"], ff=cg.BlackBox("lat", ["d"], ["q"]), other_flop_io={})
            else:
                if case.get("qs") is not None:
                    r = cg.tx.insert_registers(c, case["k"], q_suffix=case["qs"])
                else:
                    r = cg.tx.insert_registers(c, case["k"])
                if case.get("twice"):
                    # the same argument again: the first call must not have left anything behind (in the argument or elsewhere)
                    r2 = cg.tx.insert_registers(c, case["k"])
                    if proj(r2) != proj(r):
                        raise RuntimeError("second call on the same argument gave a different circuit")
    except Exception as e:  # recorded, judged by the specification
        exc = type(e).__name__
    ev = {"kind": case["op"], "k": case["k"], "c": case["c"], "exc": exc, "r": proj(r) if r is not None else {},
          "latch": bool(case.get("latch"))}
    if case.get("qs") is not None:
        ev["qs"] = case["qs"]
    if case["op"] == "insert_registers":
        ev["rt"] = {}
        if r is not None:
            g = r.graph.copy()
            for inst in r.blackboxes:
                g.nodes[inst + ".q"]["type"] = "buf"
                g.add_edge(inst + ".d", inst + ".q")
            from ..proj import proj_graph

            ev["rt"] = proj_graph(g, r.name, r.blackboxes)
    ev["nontrivial"] = bool(r is not None and (r.graph.number_of_nodes() != c.graph.number_of_nodes()))
    return ev


def negctl(e, rng):
    """Invert the type of one ORIGINAL gate in the recorded result (circuits without x constants only): its
    function is complemented, so the function clause of that node must fail whatever the circuit is."""
    r = copy.deepcopy(e.get("r") or {})
    if not r or not r.get("n") or "x" in e["c"]["ty"] or not e["c"].get("acyc", True):      # cyclic arguments: structural clauses only
        return []
    flip = {"and": "nand", "nand": "and", "or": "nor", "nor": "or", "xor": "xnor", "xnor": "xor", "buf": "not", "not": "buf"}
    orig = set(e["c"]["names"])
    gates = [i for i, t in enumerate(r["ty"]) if t in flip and r["fi"][i] and r["names"][i] in orig]
    if not gates:
        return []
    i = rng.choice(gates)
    r["ty"][i] = flip[r["ty"][i]]
    c = dict(e)
    c["r"] = r
    c["corruption"] = "type of original gate %s inverted in the recorded result" % r["names"][i]
    return [c]

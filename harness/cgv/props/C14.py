"""C14 - the fast Verilog parser agrees with the full parser on its documented subset."""
import copy
import os
import re

from ..proj import build, proj
from .. import vlog

ID = "C14"
LEVEL = "model_checking"
RULE = ("Programs inside the documented subset of the fast parser (one module, no comments, named primitive instances one per "
        "statement, terminals nets or 1'b0/1'b1, assigns of a net or constant, named-port blackbox instances with connected / "
        "unconnected / omitted pins, all outputs driven, no escaped identifiers) generated as abstract syntax and laid out as "
        "the writer does, with any non-empty run of blanks/tabs/newlines where the writer puts blanks and optional runs "
        "elsewhere (never between `)` and `;`); plus every text circuit_to_verilog emits for constant-free... and constant "
        "circuits of the C03 families without escaped names, plus the bundled c17 netlists. Both parsers are run on the same "
        "text; TLC judges (CGNetlist!Judge_parse2): identical graphs up to the name of the shared constant nodes, same "
        "inputs / outputs / instances / pin nets, Kleene-equal function at every output and blackbox input. distinct = "
        "distinct events; non-trivial = program has >= 2 statements")
ASSUMPTIONS = ["net names tie0/tie1/tie_0/tie_1 are reserved by the two parsers: not generated as user nets"]


def config(tier):
    q = tier == "quick"
    return {
        "hashseeds": [0] if q else [0, 1, 2, 3],
        "families": ["G2"],
        "mc": [{"module": "MCVerilogIO", "cfg": "MCVerilogIO", "workers": 4, "timeout": 900}],
        "shards": 8 if q else 16,
        "negctl": 12,
    }


def cases(ctx):
    for j in range(350 if ctx.quick else 8000):
        yield {"op": "prog", "salt": j, "src": "PROG"}
    rng = ctx.rng("C14")
    g2 = ctx.family("G2")
    for p in (rng.sample(g2, 60) if ctx.quick else rng.sample(g2, 1500)):
        yield {"op": "writer", "c": p, "src": "WRITER"}
    from .. import gen

    for j in range(60 if ctx.quick else 1200):
        r = ctx.rng("C14g3", j)
        c = gen.rand_circuit(r, n_in=r.randint(1, 4), n_gates=r.randint(1, 9), max_fanin=4, consts=0.3, out_is_input=0.2)
        if j % 3 == 0:
            gen.add_flops(r, c, r.randint(1, 2))
        yield {"op": "writer", "c": proj(c), "src": "WRITER"}
    for name in ("c17", "c17_gates", "c17g"):
        yield {"op": "lib", "name": name, "src": "LIB"}


def both(text, name, bbs):
    import circuitgraph as cg

    out = {}
    for key, fast in (("f", True), ("s", False)):
        exc, c = "", None
        try:
            c = cg.io.verilog_to_circuit(text, name, blackboxes=bbs, fast=fast)
        except Exception as e:
            exc = type(e).__name__
        out["c" + key] = proj(c) if c is not None else {}
        out["exc" + key] = exc
    return out


def run_case(case, ctx):
    import circuitgraph as cg

    if case["op"] == "prog":
        r = ctx.rng("C14p", case["salt"])
        p = vlog.fast_program(r)
        p["inputs"] = [n for n in p["inputs"]]
        # a net called tie0 / tie1 that is not a primary input is merged with the fast parser's constants before
        # its collision guard can see it (the guard only looks at the inputs): the fast parser's documentation does not
        # promise more, and the property speaks of "the name of the shared constant nodes": only inputs may carry them
        reserved = {"tie0", "tie1"}
        if reserved & ((set(p["outputs"]) | set(p["wires"])) - set(p["inputs"])):
            return []
        text = vlog.fast_subset_text(p, r)
        bbs = [cg.BlackBox(t["type"], t["ins"], t["outs"]) for t in p["bbtypes"]]
        dup = any(it["k"] == "gate" and it["t"] in ("xor", "xnor") and len({str(e) for e in it["ins"]}) < len(it["ins"])
                  for it in p["items"])
        ev = {"kind": "parse2", "text": text, "p": vlog.to_spec(p), "nontrivial": len(p["items"]) >= 2,
              "tags": ["repeated_parity_operand"] if dup else []}
        ev.update(both(text, p["name"], bbs))
        return ev
    if case["op"] == "writer":
        c = build(case["c"], case.get("ord"))
        if any(t == "x" for t in case["c"]["ty"]):
            return []
        bbs = list({id(b): b for b in c.blackboxes.values()}.values())
        text = cg.io.circuit_to_verilog(c)
        ev = {"kind": "parse2", "text": text, "nontrivial": True}
        ev.update(both(text, c.name, bbs))
        return ev
    path = os.path.join(os.path.dirname(cg.__file__), "netlists", case["name"] + ".v")
    if not os.path.exists(path):
        return []
    text = open(path).read()
    # the documented subset has no comments: drop comment lines (the bundled files carry a header comment)
    text = "\n".join(l for l in text.splitlines() if not l.strip().startswith("//")) + "\n"
    if "/*" in text or "assign" in text and re.search(r"assign\s+\w+\s*=\s*[^;]*[&|^~?]", text):
        return []
    ev = {"kind": "parse2", "text": text, "nontrivial": True}
    ev.update(both(text, case["name"], []))
    return ev


def negctl(e, rng):
    if e["excf"] or e["excs"] or not e["cf"]:
        return []
    cf = copy.deepcopy(e["cf"])
    flip = {"and": "nand", "nand": "and", "or": "nor", "nor": "or", "xor": "xnor", "xnor": "xor", "not": "buf", "buf": "not"}
    g = [i for i, t in enumerate(cf["ty"]) if t in flip]
    if not g:
        return []
    i = rng.choice(g)
    cf["ty"][i] = flip[cf["ty"][i]]
    c = dict(e)
    c["cf"] = cf
    c["corruption"] = "type of %s changed in the fast parser's recorded circuit" % cf["names"][i]
    return [c]

"""C16 - remove_unloaded deletes exactly the dead logic."""
import copy

from ..proj import build, proj

ID = "C16"
LEVEL = "model_checking"
RULE = ("MC: as-built worklist model (CGApi!PopEffect) on every DAG shape with <= 5 nodes x output markings x both flags x "
        "EVERY pop order equals the declarative result (DeadSet) and is idempotent. Traces: Circuit.remove_unloaded(inputs) "
        "applied twice on TLC-enumerated DAG5 shapes with seeded typing/output marks (all 1024), random circuits with grafted "
        "dead logic (dead gates fed by inputs, unloaded inputs, inputs loaded only by dead logic, dead chains, dead nodes "
        "sharing fan-in with live logic, dead constants), with flop blackboxes for inputs=False; both flag values; several "
        "hash seeds; judged by TLC. distinct = distinct events; non-trivial = at least one node is dead")


def config(tier):
    q = tier == "quick"
    return {
        "hashseeds": [0, 1, 2] if q else [0, 1, 2, 3, 4, 5, 6, 7],
        "families": ["DAG5"],
        "mc": [{"module": "MCRemoveUnloaded", "cfg": "MCRemoveUnloaded", "workers": 4, "timeout": 900, "env": {} if q else {"RU_FULL": "1"}}],
        "shards": 8 if q else 16,
        "negctl": 12,
    }


def graft_dead(rng, c):
    """Add dead logic of the kinds listed in the property directly on the graph."""
    g = c.graph
    live = [n for n in g.nodes if g.nodes[n]["type"] not in ("bb_input", "bb_output")]
    k = 0
    for _ in range(rng.randint(1, 6)):
        kind = rng.choice(["gate", "chain", "input", "input_to_dead", "const", "shared"])
        if kind == "input":
            g.add_node("ui%d" % k, type="input", output=False)
        elif kind == "const":
            g.add_node("uk%d" % k, type=rng.choice(["0", "1", "x"]), output=False)
            if rng.random() < 0.5:
                g.add_node("ukg%d" % k, type="not", output=False)
                g.add_edge("uk%d" % k, "ukg%d" % k)
        elif kind == "input_to_dead":
            g.add_node("di%d" % k, type="input", output=False)
            g.add_node("dg%d" % k, type="and", output=False)
            g.add_edge("di%d" % k, "dg%d" % k)
            g.add_edge(rng.choice(live), "dg%d" % k)
        elif kind == "chain":
            prev = rng.choice(live)
            for j in range(rng.randint(2, 4)):
                nm = "dc%d_%d" % (k, j)
                g.add_node(nm, type=rng.choice(["not", "buf", "and", "xor"]), output=False)
                g.add_edge(prev, nm)
                if g.nodes[nm]["type"] in ("and", "xor") and rng.random() < 0.7:
                    g.add_edge(rng.choice(live), nm)
                prev = nm
        else:  # gate / shared
            nm = "dd%d" % k
            g.add_node(nm, type=rng.choice(["and", "or", "xor", "nand"]), output=False)
            for f in rng.sample(live, min(len(live), rng.randint(1, 3))):
                g.add_edge(f, nm)
            if kind == "shared":
                g.add_node(nm + "b", type="or", output=False)
                g.add_edge(nm, nm + "b")
                g.add_edge(rng.choice(live), nm + "b")
        k += 1
    if c.blackboxes and rng.random() < 0.5:
        # a flop whose data output is observed by nobody: its buffer is unloaded, or feeds dead logic only
        import circuitgraph as cg

        c.blackboxes["fd"] = cg.BlackBox("ff", ["clk", "d"], ["q"])
        g.add_node("fd.clk", type="bb_input", output=False)
        g.add_node("fd.d", type="bb_input", output=False)
        g.add_node("fd.q", type="bb_output", output=False)
        g.add_edge(rng.choice(live), "fd.d")
        if "clk" in g:
            g.add_edge("clk", "fd.clk")
        g.add_node("fdq", type="buf", output=False)
        g.add_edge("fd.q", "fdq")
        if rng.random() < 0.5:
            g.add_node("fdq_dead", type="not", output=False)
            g.add_edge("fdq", "fdq_dead")
    return c


def cases(ctx):
    from .C12 import retype
    from .. import gen

    for k, p in enumerate(ctx.family("DAG5")):
        r = ctx.rng("C16t", k)
        q = retype(p, r, False)
        q["out"] = [r.random() < 0.3 for _ in q["out"]]
        for inputs in (False, True):
            yield {"op": "remove_unloaded", "c": q, "inputs": inputs, "src": "DAG5"}
    if ctx.hashseed == 0:
        # deeper than Python's recursion limit; judged only if the call raises (the declarative judgement of a 1100-node
        # circuit costs minutes in TLC)
        yield {"op": "remove_unloaded", "c": deep_chain(1100), "inputs": False, "src": "DEEP", "sparse": True}
    for j in range(150 if ctx.quick else 3000):
        r = ctx.rng("C16g3", j)
        c = gen.rand_circuit(r, n_in=r.randint(1, 4), n_gates=r.randint(2, 9), max_fanin=3, out_is_input=0.3, loaded_in_out=0.15)
        bb = r.random() < 0.4
        if bb:
            gen.add_flops(r, c, 1)
        graft_dead(r, c)
        p = proj(c)
        yield {"op": "remove_unloaded", "c": p, "inputs": False, "src": "G3"}
        if not bb:
            yield {"op": "remove_unloaded", "c": p, "inputs": True, "src": "G3"}


def deep_chain(n):
    import networkx as nx
    from ..proj import proj_graph

    g = nx.DiGraph()
    g.add_node("a", type="input", output=False)
    g.add_node("o", type="buf", output=True)
    g.add_edge("a", "o")
    prev = "a"
    for k in range(n):
        g.add_node("d%d" % k, type="not", output=False)
        g.add_edge(prev, "d%d" % k)
        prev = "d%d" % k
    return proj_graph(g, "deep")


def run_case(case, ctx):
    c = build(case["c"], case.get("ord"))
    ev = {"kind": "remove_unloaded", "c": case["c"], "inputs": case["inputs"], "exc": "", "post": {}, "ret": [], "post2": {}, "ret2": []}
    try:
        ret = c.remove_unloaded(inputs=case["inputs"])
        ev["post"], ev["ret"] = proj(c), sorted(str(x) for x in ret)
        ret2 = c.remove_unloaded(inputs=case["inputs"])
        ev["post2"], ev["ret2"] = proj(c), sorted(str(x) for x in ret2)
    except Exception as e:
        ev["exc"] = type(e).__name__
    ev["nontrivial"] = bool(ev["ret"])
    if case.get("sparse") and not ev["exc"]:
        ctx.count("deep_chain_without_exception_not_recorded")
        return []
    return ev


def negctl(e, rng):
    if e["exc"] or not e["ret"]:
        return []
    c = copy.deepcopy(e)
    c["ret"] = c["ret"][:-1]
    c["corruption"] = "one deleted node dropped from the returned list"
    return [c]

"""C18 - acyclic_unroll removes cycles and preserves stable states."""
import copy

from ..proj import build, proj, proj_graph
from . import C01

ID = "C18"
LEVEL = "model_checking"
RULE = ("Traces of tx.acyclic_unroll on cyclic circuits judged by TLC with the all-bits method: Stable(c) = consistent "
        "valuations of all nodes (<= 13 nodes); result acyclic, lint-clean (CGLint), same outputs, inputs = original inputs + "
        "auxiliary inputs; for every input valuation and every stable state, with each auxiliary input at the stable value of "
        "its node (attribution by the aux_in_<f> naming hint, else any attribution is searched), every output equals its "
        "stable value. Circuits: TLC-enumerated G2 + 1..2 feedback edges (GC), random cyclic circuits with nested / "
        "overlapping cycles, several SCCs, cut nodes that also feed parity gates, hub nodes sourcing several feedback edges, "
        "outputs that are inputs; several hash seeds (they steer the feedback-set heuristic). distinct = distinct events; "
        "non-trivial = circuit has >= 2 feedback edges or a stable state exists for some input valuation")
ASSUMPTIONS = ["circuits without self-loops, blackboxes and x constants (as the property states)"]


def config(tier):
    q = tier == "quick"
    return {
        "hashseeds": [0, 1, 2] if q else [0, 1, 2, 3, 4, 5, 6, 7],
        "families": ["G2", "DG4"],
        "mc": [{"module": "MCFas", "cfg": "MCFas", "workers": 4 if q else 8, "timeout": 5400, "env": {} if q else {"MC_FULL": "1"}},
               {"module": "MCLoops", "cfg": "MCAcyclicUnroll", "workers": 4, "timeout": 900}],
        "shards": 8 if q else 16,
        "negctl": 10,
    }


def rand_cyclic(rng):
    import networkx as nx
    from .. import gen

    g = gen.rand_dag(rng, n_in=rng.randint(1, 3), n_gates=rng.randint(3, 8), max_fanin=3, consts=0.15, out_is_input=0.2, loaded_in_out=0.15)
    multi = [n for n in g.nodes if g.nodes[n]["type"] in gen.GATESN]
    gates = [n for n in g.nodes if g.nodes[n]["type"] in gen.GATES]
    added = 0
    for _ in range(rng.randint(1, 3) * 3):
        if added >= rng.randint(1, 3) or not multi:
            break
        v = rng.choice(multi)
        cands = [u for u in gates if u != v and nx.has_path(g, v, u)]
        if rng.random() < 0.3:   # hub: reuse a source that already has a feedback edge
            cands = [u for u in cands if any(nx.has_path(g, w, u) for w in g.successors(u))] or cands
        if cands:
            u = rng.choice(cands)
            if not g.has_edge(u, v):
                g.add_edge(u, v)
                added += 1
    if rng.random() < 0.2 and g.number_of_nodes() <= 10:
        # a loop that no output observes (lint-clean: unloaded nodes are allowed by default)
        ins = [n for n in g.nodes if g.nodes[n]["type"] == "input"]
        g.add_node("dl0", type="nand", output=False)
        g.add_node("dl1", type="nor", output=False)
        g.add_edges_from([(rng.choice(ins), "dl0"), ("dl1", "dl0"), ("dl0", "dl1"), (rng.choice(ins), "dl1")])
    if nx.is_directed_acyclic_graph(g) or g.number_of_nodes() > 13:
        return None
    if rng.random() < 0.2:
        g.add_node("test_en", type="input", output=False)       # a declared primary input nothing reads
    if rng.random() < 0.15:
        # primary inputs named like nodes of the unrolled copies (c0_<n>, c1_<n>)
        ins = [n for n in g.nodes if g.nodes[n]["type"] == "input"]
        nx.relabel_nodes(g, {ins[0]: rng.choice(["c0_en", "c1_d", "c0_" + ins[0]])}, copy=False)
    return proj_graph(g, "cyc")


def from_digraph(p, rng):
    """A 4-node digraph (DG4 family) as a circuit: every node a multi-input gate fed by its predecessors and by its own
    primary input; sinks (and a seeded choice of others) are outputs."""
    import networkx as nx

    g = nx.DiGraph()
    n = p["n"]
    loads = [0] * n
    for i in range(n):
        for j in p["fi"][i]:
            loads[j - 1] += 1
    for i in range(n):
        g.add_node("x%d" % i, type="input", output=False)
        g.add_node("g%d" % i, type=rng.choice(["and", "nand", "or", "nor", "xor", "xnor"]), output=(loads[i] == 0 or rng.random() < 0.3))
        g.add_edge("x%d" % i, "g%d" % i)
    for i in range(n):
        for j in p["fi"][i]:
            g.add_edge("g%d" % (j - 1), "g%d" % i)
    if nx.is_directed_acyclic_graph(g):
        return None
    return proj_graph(g, "dg")


def dense_knot(rng, p=0.3):
    """7-9 gates with dense mutual feedback (overlapping, knotted cycles); too wide for the all-bits judgement, so these
    cases are recorded only when the call raises or (1 in 25) for the structural clauses.  With p = 0.18 loops mix with
    feed-forward logic: orderings of the feedback heuristic then have backward edges that are on no loop."""
    import networkx as nx

    n = rng.choice([7, 7, 8, 9])
    g = nx.DiGraph()
    order = list(range(n))
    rng.shuffle(order)
    for i in order:
        g.add_node("x%d" % i, type="input", output=False)
    for i in order:
        g.add_node("g%d" % i, type=rng.choice(["and", "or", "nand", "nor", "xor"]), output=rng.random() < 0.4)
        g.add_edge("x%d" % i, "g%d" % i)
    for i in range(n):
        for j in range(n):
            if i != j and rng.random() < p:
                g.add_edge("g%d" % i, "g%d" % j)
    if nx.is_directed_acyclic_graph(g):
        return None
    if not any(g.nodes[x]["output"] for x in g):
        g.nodes["g0"]["output"] = True
    return proj_graph(g, "knot")


def cases(ctx):
    for j in range(4000 if ctx.quick else 30000):
        p = dense_knot(ctx.rng("C18knot", j))
        if p is not None:
            yield {"op": "acyclic_unroll_cyclic", "c": p, "src": "KNOT", "sparse": j % 25 != 0}
    for j in range(6000 if ctx.quick else 40000):
        p = dense_knot(ctx.rng("C18knot2", j), 0.18)
        if p is not None:
            yield {"op": "acyclic_unroll_cyclic", "c": p, "src": "KNOT2", "sparse": j % 50 != 0}
    rng = ctx.rng("C18")
    dg4 = ctx.family("DG4")
    k = 0
    for p in (rng.sample(dg4, 900) if ctx.quick else dg4):
        q = from_digraph(p, ctx.rng("C18dg", k))
        k += 1
        if q is not None:
            yield {"op": "acyclic_unroll_cyclic", "c": q, "src": "DG4"}
    g2 = ctx.family("G2")
    for p in (rng.sample(g2, 700) if ctx.quick else g2):
        for q in C01.cyclic_variants(p, rng):
            yield {"op": "acyclic_unroll_cyclic", "c": q, "src": "GC"}
    n = 0
    j = 0
    while n < (150 if ctx.quick else 3000) and j < 20000:
        j += 1
        p = rand_cyclic(ctx.rng("C18g3", j))
        if p is not None:
            n += 1
            yield {"op": "acyclic_unroll_cyclic", "c": p, "src": "G3C"}


def run_case(case, ctx):
    import circuitgraph as cg

    c = build(case["c"], case.get("ord"))
    exc, r = "", None
    try:
        r = cg.tx.acyclic_unroll(c)
    except Exception as e:
        exc = type(e).__name__
    if case.get("sparse") and not exc:
        ctx.count("knot_cases_without_exception_not_recorded")
        return []
    return {"kind": "acyclic_unroll_cyclic", "c": proj(c), "r": proj(r) if r is not None else {}, "exc": exc, "nontrivial": True}


def negctl(e, rng):
    """Invert the buffer that drives an output in the recorded result when the output's stable value is not constant...
    guaranteed only if some stable state exists: not decidable here, so no negative control of this kind; instead
    make the result cyclic-by-claim: drop the acyc flag."""
    if e["exc"] or not e["r"]:
        return []
    c = copy.deepcopy(e)
    c["r"]["acyc"] = False
    c["corruption"] = "recorded result flagged cyclic"
    return [c]

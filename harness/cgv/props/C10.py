"""C10 - the ternary encoding computes Kleene three-valued simulation."""
import copy

from ..proj import build, proj
from . import C01

ID = "C10"
LEVEL = "model_checking"
RULE = ("MC: as-built dual-rail construction (MCTernary) equals Kleene evaluation for every G1 gate (all types, fan-in 1..4, "
        "constants 0/1, nested gate). Traces: tx.ternary on G1 without x (exhaustive), G2 (seeded slice in quick), random "
        "DAGs with <= 5 inputs incl. constants, nets shared between and-family and or-family gates, outputs that are "
        "inputs; judged by TLC over all 4^k patterns of (value bit, X bit) per input, i.e. all 3^k ternary patterns and "
        "both binary values under X. distinct = distinct events; non-trivial = circuit has a multi-input gate")
ASSUMPTIONS = ["x constants make ternary raise ValueError loudly: outside the stated constants 0/1 handling, not generated"]


def config(tier):
    q = tier == "quick"
    return {
        "hashseeds": [0, 1] if q else [0, 1, 2, 3, 4, 5, 6, 7],
        "families": ["G1", "G2"],
        "mc": [{"module": "MCTernary", "cfg": "MCTernary", "workers": 4, "timeout": 600}],
        "shards": 8 if q else 16,
        "negctl": 12,
    }


def cases(ctx):
    rng = ctx.rng("C10")
    for p in ctx.family("G1"):
        if C01.no_x(p):
            yield {"op": "ternary", "c": p, "src": "G1"}
    g2 = ctx.family("G2")
    for p in (rng.sample(g2, 400) if ctx.quick else g2):
        yield {"op": "ternary", "c": p, "src": "G2"}
    from .. import gen

    for i, p in enumerate(ctx.family("G1")):
        if not C01.no_x(p) and i % (4 if ctx.quick else 1) == 0:
            yield {"op": "ternary", "c": p, "src": "G1x", "xconst": True}
    for t1 in ("and", "or", "nand", "nor", "xor"):
        for t2 in ("and", "or", "nand", "nor", "xnor"):
            yield {"op": "ternary", "c": join_collision(t1, t2), "src": "JOIN"}
    for j in range(80 if ctx.quick else 1500):
        r = ctx.rng("C10g3", j)
        c = gen.rand_circuit(r, n_in=r.randint(1, 5), n_gates=r.randint(2, 10), max_fanin=4, consts=0.5, out_is_input=0.2)
        yield {"op": "ternary", "c": proj(c), "src": "G3"}
        if j % 4 == 1:
            # a gate that drives nothing and is no output: it still has to be in the result, with its companion
            c2 = c.copy()
            ns = sorted(c2.nodes())
            c2.add("dangling", r.choice(["and", "or", "xor", "not"]), fanin=r.sample(ns, 1))
            yield {"op": "ternary", "c": proj(c2), "src": "DANGLE"}
        if j % 3 == 0:
            # nets called like the nodes ternary() adds for another net: <n>_X, <n>_x_in_fi, <p>_is_0, <p>_not_x ...
            import networkx as nx

            ns = sorted(c.graph.nodes)
            if len(ns) >= 3:
                a, b, d = r.sample(ns, 3)
                ren = {b: a + "_X", d: r.choice([a + "_x_in_fi", a + "_is_0", a + "_is_1", a + "_not_x", a + "_0_not_in_fi", a + "_X_0"])}
                nx.relabel_nodes(c.graph, ren, copy=False)
                yield {"op": "ternary", "c": proj(c), "src": "NAMES"}


def join_collision(t1, t2):
    """Two gates whose different operand sets give the same string when the sorted names are joined with `_`."""
    import networkx as nx
    from ..proj import proj_graph

    g = nx.DiGraph()
    for n in ("a_in", "sel", "a", "in_sel"):
        g.add_node(n, type="input", output=False)
    g.add_node("g1", type=t1, output=True)
    g.add_node("g2", type=t2, output=True)
    g.add_edges_from([("a_in", "g1"), ("sel", "g1"), ("a", "g2"), ("in_sel", "g2")])
    return proj_graph(g, "join")


def run_case(case, ctx):
    import circuitgraph as cg

    c = build(case["c"], case.get("ord"))
    exc, t, mp = "", None, {}
    try:
        t, mp = cg.tx.ternary(c)
    except Exception as e:
        exc = type(e).__name__
    if case.get("xconst") and exc == "ValueError":
        ctx.count("x_constant_rejected_loudly")       # outside the domain: a loud rejection is never a violation
        return []
    p = case["c"]
    evs = [{"kind": "ternary", "c": p, "t": proj(t) if t is not None else {}, "map": [[n, mp[n]] for n in p["names"] if n in mp],
            "exc": exc, "nontrivial": any(len(f) > 1 for f in p["fi"])}]
    r = ctx.rng("C10hist", p["n"], len(p["names"][-1]), sum(len(f) for f in p["fi"]))
    flip = {"and": "nand", "nand": "and", "or": "nor", "nor": "or", "xor": "xnor", "xnor": "xor", "buf": "not", "not": "buf"}
    gates = [n for n in sorted(c.nodes()) if c.type(n) in flip]
    if not exc and not case.get("xconst") and gates and r.random() < 0.3:
        # the same object, a gate re-typed in place (node and edge counts unchanged): nothing of the first call may be reused
        g = r.choice(gates)
        c.set_type(g, flip[c.type(g)])
        exc2, t2, mp2 = "", None, {}
        try:
            t2, mp2 = cg.tx.ternary(c)
        except Exception as e:
            exc2 = type(e).__name__
        p2 = proj(c)
        evs.append({"kind": "ternary", "c": p2, "t": proj(t2) if t2 is not None else {}, "map": [[n, mp2[n]] for n in p2["names"] if n in mp2],
                    "exc": exc2, "nontrivial": True})
    return evs


def negctl(e, rng):
    """Declare a parity / buf / not gate over primary inputs to be its own companion: with every X bit at 0 such a gate
    is a non-constant function of the value bits whereas its Kleene X is empty there, so the clause must fail."""
    if e["exc"] or not e["t"] or not e["map"]:
        return []
    p = e["c"]
    cand = [n for n, t, f in zip(p["names"], p["ty"], p["fi"])
            if t in ("xor", "xnor", "buf", "not") and f and all(p["ty"][j - 1] == "input" for j in f)]
    if not cand:
        return []
    g = rng.choice(cand)
    c = copy.deepcopy(e)
    for m in c["map"]:
        if m[0] == g:
            m[1] = g
            c["corruption"] = "companion of gate %s replaced by the gate itself" % g
            return [c]
    return []

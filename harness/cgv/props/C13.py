"""C13 - generated arithmetic blocks compute the arithmetic they name."""
import copy
import itertools

from ..proj import proj

ID = "C13"
LEVEL = "model_checking"
RULE = ("MC: the as-built generator models (CGLogic: the API-call sequences of circuitgraph.logic run on the API model CGApi) "
        "are evaluated on all input vectors for adder w<=3, mux w<=5, popcount w<=6 (MCLogic); every real block with w<=3 is "
        "compared with the model's block (MODEL-DRIFT if different). Every generated block (logic.adder all widths 1..16, 31..33, 63, 64 x carry_in x carry_out; mux widths 1..17, 32, 33; "
        "popcount widths 1..16, 31..33, 64; half_adder; full_adder) is evaluated by TLC from its recorded structure: on ALL "
        "input vectors when it has <= 11 inputs (exhaustive), else on recorded corner vectors (zeros, ones, walking one/zero "
        "per select code) plus seeded random vectors; the reference is arithmetic on bit sequences in the specification. "
        "Block io names, lint (spec and cg.lint) judged too. Helpers: clog2(n) for n in 1..400 and 2^k-1, 2^k, 2^k+1 (k <= 62), "
        "int_to_bin / bin_to_int round trip for all i < 2^w, w <= 6, both endiannesses, plus wide random i. distinct = "
        "distinct events; non-trivial = width >= 2")


def config(tier):
    q = tier == "quick"
    return {
        "hashseeds": [0] if q else [0, 1, 2, 3],
        "families": [],
        "mc": [{"module": "MCLogic", "cfg": "MCLogic", "workers": 4, "timeout": 900}],
        "shards": 8 if q else 16,
        "negctl": 12,
    }


def cases(ctx):
    q = ctx.quick
    widths = list(range(1, 17)) + [31, 32, 33, 63, 64]
    if q:
        widths = [1, 2, 3, 4, 5, 7, 8, 9, 16, 31, 32, 33, 64]
    for w in widths:
        for cin in (False, True):
            for cout in (False, True):
                yield {"op": "logic", "block": "adder", "w": w, "cin": cin, "cout": cout, "src": "ADD"}
    for w in (1, 2, 3):
        yield {"op": "logic", "block": "adder", "w": w, "cin": False, "cout": True, "src": "ADD2"}
    for w in (list(range(1, 18)) + [32, 33]):
        yield {"op": "logic", "block": "mux", "w": w, "cin": False, "cout": False, "src": "MUX"}
    for w in ([1, 2, 3, 4, 5, 6, 7, 8, 9, 15, 16, 17, 31, 32, 33, 64] if q else list(range(1, 18)) + [31, 32, 33, 63, 64]):
        yield {"op": "logic", "block": "popcount", "w": w, "cin": False, "cout": False, "src": "POP"}
    yield {"op": "logic", "block": "half_adder", "w": 1, "cin": False, "cout": False, "src": "HA"}
    yield {"op": "logic", "block": "full_adder", "w": 1, "cin": True, "cout": True, "src": "FA"}
    ns = list(range(1, 401)) + [2 ** k + d for k in range(1, 63) for d in (-1, 0, 1)]
    yield {"op": "clog2", "ns": sorted(set(n for n in ns if n >= 1)), "src": "CLOG2"}
    items = []
    for w in range(0, 7):
        for i in range(2 ** w):
            for lend in (False, True):
                items.append([i, w, lend])
    r = ctx.rng("C13b")
    for _ in range(60):
        w = r.randint(1, 45)
        items.append([r.randrange(2 ** w), w + r.choice([0, 0, 3]), r.random() < 0.5])
    for _ in range(20):
        items.append([r.randrange(2 ** 20), r.randint(0, 10), r.random() < 0.5])     # i wider than w: never truncated
    for w in (53, 54, 55, 63, 64, 65, 100):
        for i in (2 ** (w - 1) + 1, 2 ** w - 1, 2 ** (w - 1) + 2 ** (w // 2) + 3, r.randrange(2 ** (w - 1), 2 ** w) | 1):
            items.append([i, w, r.random() < 0.5])                                    # beyond the mantissa of a float
    yield {"op": "bits", "items": items, "src": "BITS"}


def bits_le(n):
    return [int(b) for b in reversed(bin(n)[2:])] if n > 0 else []


def vectors(c, block, w, r):
    ins = sorted(c.inputs())
    if len(ins) <= 11:
        return ins, [list(v) for v in itertools.product([0, 1], repeat=len(ins))]
    vecs = [[0] * len(ins), [1] * len(ins)]
    pos = {n: k for k, n in enumerate(ins)}
    if block == "mux":
        nsel = len([n for n in ins if n.startswith("sel_")])
        for code in range(2 ** nsel):
            base = [0] * len(ins)
            for b in range(nsel):
                base[pos["sel_%d" % b]] = (code >> b) & 1
            # walking one / walking zero over the data inputs around the selected one
            for tgt in {code % w, (code + 1) % w, 0, w - 1}:
                v = list(base)
                v[pos["in_%d" % tgt]] = 1
                vecs.append(v)
                v2 = [1 if n.startswith("in_") else x for n, x in zip(ins, base)]
                v2[pos["in_%d" % tgt]] = 0
                vecs.append(v2)
    else:
        for k in range(len(ins)):
            v = [0] * len(ins)
            v[k] = 1
            vecs.append(v)
    for _ in range(24):
        vecs.append([r.randint(0, 1) for _ in ins])
    return ins, vecs


def run_case(case, ctx):
    import circuitgraph as cg

    if case["op"] == "logic":
        exc, c = "", None
        try:
            b = case["block"]
            if b == "adder":
                c = cg.logic.adder(case["w"], carry_in=case["cin"], carry_out=case["cout"])
            elif b == "mux":
                c = cg.logic.mux(case["w"])
            elif b == "popcount":
                c = cg.logic.popcount(case["w"])
            elif b == "half_adder":
                c = cg.logic.half_adder()
            else:
                c = cg.logic.full_adder()
        except Exception as e:
            exc = type(e).__name__
        ev = {"kind": "logic", "block": case["block"], "w": case["w"], "cin": case["cin"], "cout": case["cout"], "exc": exc,
              "c": {}, "inames": [], "vecs": [], "lint_exc": "", "nontrivial": case["w"] >= 2}
        if c is not None:
            try:
                cg.lint(c)
            except Exception as e:
                ev["lint_exc"] = type(e).__name__
            ev["c"] = proj(c)
            ev["inames"], ev["vecs"] = vectors(c, case["block"], case["w"], ctx.rng("C13v", case["block"], case["w"]))
            # the caller owns what a generator returns: wreck it, later blocks (popcount is built from adders) must not notice
            for n in list(c.graph.nodes):
                c.graph.nodes[n]["type"] = "nor"
            c.graph.remove_edges_from(list(c.graph.edges)[::2])
        return ev
    if case["op"] == "clog2":
        evs = []
        for n in case["ns"]:
            exc, res = "", -1
            try:
                res = int(cg.utils.clog2(n))
            except Exception as e:
                exc = type(e).__name__
            evs.append({"kind": "clog2", "n_bits": bits_le(n), "res": res, "exc": exc, "nontrivial": n > 2})
        return evs
    evs = []
    for i, w, lend in case["items"]:
        exc, res, back = "", [], 0
        try:
            t = cg.utils.int_to_bin(i, w, lend)
            res = [1 if x else 0 for x in t]
            back = cg.utils.bin_to_int(t, lend)
        except Exception as e:
            exc = type(e).__name__
        evs.append({"kind": "int_to_bin", "i_bits": bits_le(i), "w": w, "lend": lend, "res": res, "back_bits": bits_le(back),
                    "exc": exc, "nontrivial": w >= 2})
    return evs


def negctl(e, rng):
    c = copy.deepcopy(e)
    if e["kind"] == "clog2" and not e["exc"]:
        c["res"] = e["res"] + 1
        c["corruption"] = "clog2 off by one"
        return [c]
    if e["kind"] == "logic" and not e["exc"] and e["block"] in ("adder", "half_adder", "full_adder") and e["c"]:
        p = c["c"]
        nm = "out_0" if e["block"] == "adder" else "s"
        i = p["names"].index(nm)
        flip = {"buf": "not", "xor": "xnor"}
        if p["ty"][i] in flip:
            p["ty"][i] = flip[p["ty"][i]]
            c["corruption"] = "least significant sum bit inverted in the recorded block"
            return [c]
    return []

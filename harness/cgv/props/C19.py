"""C19 - transforms, queries and writers never modify or alias their argument."""
import copy
import os
import tempfile

from ..proj import proj

ID = "C19"
LEVEL = "model_checking"
RULE = ("MC: CGHeap (objects = references to separately allocated graph / registry parts): with correct calls NoSharing, "
        "ArgsUnchanged and edit isolation hold in every reachable heap (MCHeap); an aliasing or mutating call breaks "
        "isolation (MCHeapBad, expected counterexample = spec-level negative control). Traces: EVERY public function of "
        "tx, props, sat, io (writers), utils.lint and every read-only Circuit method (enumerated from the modules at "
        "run time; functions without a call recipe are listed in the evidence) is called on random circuits with / "
        "without blackboxes, escaped names, constants, valid and invalid arguments; the argument is snapshotted "
        "around the call (frame events); every returned circuit is edited (add/remove node, add/remove edge, retype, "
        "output mark, registry add/remove) and then the argument is edited the same way, the other object being "
        "snapshotted around each edit (alias events). Judged by TLC (JudgeFrame). distinct = distinct events; "
        "non-trivial = the call returned a circuit or raised")


def config(tier):
    q = tier == "quick"
    return {
        "hashseeds": [0, 1] if q else [0, 1, 2, 3],
        "families": [],
        "mc": [{"module": "MCHeap", "cfg": "MCHeap", "workers": 4, "timeout": 900},
               {"module": "MCHeap", "cfg": "MCHeapBad", "workers": 2, "timeout": 300, "expect": "violation"}],
        "shards": 8 if q else 16,
        "negctl": 12,
    }


def snap(c):
    p = proj(c)
    g = c.graph
    extra = sorted([str(n), str(k), repr(v)] for n in g.nodes for k, v in g.nodes[n].items() if k not in ("type", "output"))
    extra += sorted([str(n), "<attribute missing>", k] for n in g.nodes for k in ("type", "output") if k not in g.nodes[n])
    extra += sorted(["<graph>", str(k), repr(v)] for k, v in g.graph.items())
    extra += sorted(["<edge>%s>%s" % (u, v), str(k), repr(w)] for u, v, d in g.edges(data=True) for k, w in d.items())
    return p, extra


def recipes(cg, c, r, tmpdir):
    """name -> thunk calling the function with circuit c as (one of) its argument(s)."""
    nodes = sorted(c.nodes())
    gates = [n for n in nodes if c.type(n) not in ("input", "bb_input", "bb_output", "0", "1", "x")]
    n0 = r.choice(gates or nodes)
    n1 = r.choice(nodes)
    outs = sorted(c.outputs())
    ins = sorted(c.inputs())
    some = r.sample(nodes, min(len(nodes), 3))
    R = {}
    T = cg.tx
    R["tx.strip_io"] = lambda: T.strip_io(c)
    R["tx.strip_outputs"] = lambda: T.strip_outputs(c)
    R["tx.strip_inputs"] = lambda: T.strip_inputs(c)
    R["tx.strip_blackboxes"] = lambda: T.strip_blackboxes(c, r.choice([None, "clk", ["d"]]))
    R["tx.relabel"] = lambda: T.relabel(c, {n1: n1 + "_r"})
    mi = r.random() < 0.5
    R["tx.subcircuit"] = lambda: T.subcircuit(c, some, modify_io=mi)
    # arguments of the calls that have an exact as-built model (CGTxMisc): recorded with the result
    ASBUILT.clear()
    ASBUILT.update({"tx.strip_io": {}, "tx.strip_inputs": {}, "tx.strip_outputs": {}, "tx.relabel": {"mapping": [[n1, n1 + "_r"]]},
                    "tx.subcircuit": {"nodes": list(some), "modify_io": mi}})
    R["tx.subcircuit_all"] = lambda: T.subcircuit(c, nodes)
    R["tx.subcircuit_all_io"] = lambda: T.subcircuit(c, set(nodes), modify_io=True)
    R["tx.sensitization_transform_sinks"] = lambda: T.sensitization_transform(c, n0, [o for o in outs if not c.fanout(o)] or None)
    R["props.influence_supergates"] = lambda: cg.props.influence(c, n0, supergates=True, approx=False)
    R["tx.ternary"] = lambda: T.ternary(c)
    R["tx.miter"] = lambda: T.miter(c)
    R["tx.miter2"] = lambda: T.miter(c, c.copy(), startpoints=set(ins[:1]) or None, endpoints=set(outs[:1]) or None)
    R["tx.sequential_unroll"] = lambda: T.sequential_unroll(c, 2, "d", "q", ignore_pins="clk")
    R["tx.unroll"] = lambda: T.unroll(c, 2, {outs[0]: ins[0]} if outs and ins and outs[0] != ins[0] else {})
    R["tx.sensitization_transform"] = lambda: T.sensitization_transform(c, n0, r.choice([None, outs[:1] or None]))
    R["tx.sensitivity_transform"] = lambda: T.sensitivity_transform(c, n0)
    R["tx.limit_fanin"] = lambda: T.limit_fanin(c, r.choice([2, 3, 1]))
    R["tx.limit_fanout"] = lambda: T.limit_fanout(c, r.choice([2, 3, 1]))
    R["tx.acyclic_unroll"] = lambda: T.acyclic_unroll(c)
    R["tx.supergates"] = lambda: T.supergates(c, construct_supercircuit=r.random() < 0.4)
    R["tx.insert_registers"] = lambda: T.insert_registers(c, r.choice([1, 2]))
    P = cg.props
    R["props.influence"] = lambda: P.influence(c, n0, approx=False)
    R["props.avg_sensitivity"] = lambda: P.avg_sensitivity(c, n0, approx=False)
    R["props.sensitivity"] = lambda: P.sensitivity(c, n0)
    R["props.sensitize"] = lambda: P.sensitize(c, n0)
    R["props.signal_probability"] = lambda: P.signal_probability(c, n0, approx=False)
    R["props.signal_probability_approx"] = lambda: P.signal_probability(c, n0, approx=True)
    R["props.levelize"] = lambda: P.levelize(c)
    S = cg.sat
    R["sat.cnf"] = lambda: S.cnf(c)
    R["sat.solve"] = lambda: S.solve(c, {n1: True})
    R["sat.solve_bad"] = lambda: S.solve(c, {"no_such_node": True})
    R["sat.model_count"] = lambda: S.model_count(c, {n0: False})
    R["sat.approx_model_count"] = lambda: S.approx_model_count(c, {n0: True})
    R["sat.construct_solver"] = lambda: S.construct_solver(c, {n1: False})
    IO = cg.io
    R["io.circuit_to_verilog"] = lambda: IO.circuit_to_verilog(c, behavioral=r.random() < 0.5)
    R["io.circuit_to_bench"] = lambda: IO.circuit_to_bench(c)
    R["io.to_file"] = lambda: IO.to_file(c, os.path.join(tmpdir, "w.v"), behavioral=r.random() < 0.5)
    R["io.to_file_bench"] = lambda: IO.to_file(c, os.path.join(tmpdir, "w.bench"), fmt="bench")
    R["io.to_file_badfmt"] = lambda: IO.to_file(c, os.path.join(tmpdir, "w.x"), fmt="nope")
    R["utils.lint"] = lambda: cg.utils.lint(c, fail_fast=r.random() < 0.5, unloaded=True, single_input_gates=True)
    M = {
        "copy": lambda: c.copy(), "type": lambda: c.type(nodes), "filter_type": lambda: c.filter_type(["and", "buf"]),
        "filter_type_bad": lambda: c.filter_type("nope"), "nodes": c.nodes, "edges": c.edges,
        "fanin": lambda: c.fanin(some), "fanout": lambda: c.fanout(some),
        "transitive_fanin": lambda: c.transitive_fanin(some), "transitive_fanout": lambda: c.transitive_fanout(n1),
        "fanin_depth": lambda: c.fanin_depth(n0), "fanout_depth": lambda: c.fanout_depth(some),
        "paths": lambda: list(c.paths(ins[0] if ins else n1, n0)), "inputs": c.inputs, "is_output": lambda: c.is_output(n1),
        "is_output_bad": lambda: c.is_output("no_such_node"), "outputs": c.outputs, "io": c.io,
        "startpoints": lambda: c.startpoints(n0), "endpoints": lambda: c.endpoints(some),
        "reconvergent_fanout_nodes": lambda: list(c.reconvergent_fanout_nodes()),
        "has_reconvergent_fanout": c.has_reconvergent_fanout, "is_cyclic": c.is_cyclic, "uid": lambda: c.uid(n1),
        "kcuts": lambda: c.kcuts(n0, 3), "topo_sort": lambda: list(c.topo_sort()),
        "__contains__": lambda: n1 in c, "__len__": lambda: len(c), "__iter__": lambda: list(iter(c)),
    }
    for k, v in M.items():
        R["Circuit." + k] = v
    return R


ASBUILT = {}
MUTATORS = {"add_subcircuit", "add_blackbox", "fill_blackbox", "add", "remove", "relabel", "connect", "disconnect",
            "set_type", "set_output", "remove_unloaded"}
EXTERNAL = {"tx.syn", "tx.aig", "utils.visualize"}   # need yosys / genus / dc: not installed


def uncovered(cg, R):
    import inspect

    miss = []
    for modname, mod in (("tx", cg.tx), ("props", cg.props), ("sat", cg.sat)):
        for n, f in inspect.getmembers(mod, inspect.isfunction):
            if f.__module__ == mod.__name__ and not n.startswith("_"):
                full = "%s.%s" % (modname, n)
                if full not in R and full not in EXTERNAL and n not in ("add_assumptions", "remap"):
                    miss.append(full)
    for n, f in inspect.getmembers(cg.Circuit, inspect.isfunction):
        if not n.startswith("_") and n not in MUTATORS and "Circuit." + n not in R:
            miss.append("Circuit." + n)
    return miss


def circuits_in(res):
    import circuitgraph as cg

    out = []
    if isinstance(res, cg.Circuit):
        out.append(res)
    elif isinstance(res, (tuple, list)):
        for x in res:
            out += circuits_in(x)
    elif isinstance(res, dict):
        for x in res.values():
            out += circuits_in(x)
    return out


EDITS = ["add_node", "remove_node", "add_edge", "remove_edge", "retype", "mark_output", "registry_add", "registry_pop"]


def do_edit(cg, c, kind, r):
    """Direct edits of one object's mutable state (graph and registry)."""
    g = c.graph
    nodes = sorted(g.nodes)
    if kind == "add_node":
        g.add_node("cgv_new", type="and", output=False)
    elif kind == "remove_node" and nodes:
        g.remove_node(r.choice(nodes))
    elif kind == "add_edge" and len(nodes) >= 2:
        u, v = r.sample(nodes, 2)
        g.add_edge(u, v)
    elif kind == "remove_edge" and g.number_of_edges():
        u, v = r.choice(sorted(g.edges))
        g.remove_edge(u, v)
    elif kind == "retype" and nodes:
        g.nodes[r.choice(nodes)]["type"] = "nor"
    elif kind == "mark_output" and nodes:
        n = r.choice(nodes)
        g.nodes[n]["output"] = not g.nodes[n].get("output", False)
    elif kind == "registry_add":
        c.blackboxes["cgv_bb"] = cg.BlackBox("cgvtype", ["a"], ["y"])
    elif kind == "registry_pop" and c.blackboxes:
        c.blackboxes.pop(sorted(c.blackboxes)[0])
    c.name = c.name  # (name is immutable str; rebinding is per object)


def cases(ctx):
    for j in range(16 if ctx.quick else 200):
        yield {"op": "sweep", "salt": j, "src": "SWEEP"}


def make_circuit(ctx, r, variant):
    import circuitgraph as cg
    from .. import gen

    names = None
    if variant % 4 == 1:
        names = ["\\a[0]", "\\b.c", "i2", "i3", "i4", "i5"]
    c = gen.rand_circuit(r, n_in=r.randint(2, 4), n_gates=r.randint(3, 8), max_fanin=3, names=names, out_is_input=0.2)
    if variant % 4 == 1:
        import networkx as nx

        nx.relabel_nodes(c.graph, {n: "\\" + n + "[1]" for n in list(c.graph.nodes) if n.startswith("n") and r.random() < 0.4}, copy=False)
    if variant % 2 == 0:
        # (now and then a blackbox definition that was created without a name: the class allows it)
        gen.add_flops(r, c, r.randint(1, 2), bbtype=(cg.BlackBox(None, ["clk", "d"], ["q"]) if variant % 8 == 6 else None))
    if variant % 8 == 5:
        for n in sorted(c.inputs()):                 # no primary inputs at all: constants drive everything
            c.graph.nodes[n]["type"] = r.choice(["0", "1"])
    c.name = ["rc", "c17-opt", "alu.v2", "top"][variant % 4]      # names that are not plain identifiers too
    if variant % 3 == 0:
        # circuits wrapped around a raw graph (or read by the fast parser) lack the optional `output` attribute
        for n in list(c.graph.nodes):
            if not c.graph.nodes[n].get("output") and r.random() < 0.6:
                del c.graph.nodes[n]["output"]
    return c


def run_case(case, ctx):
    import circuitgraph as cg

    r = ctx.rng("C19", case["salt"])
    evs = []
    tmpdir = tempfile.mkdtemp(prefix="c19_", dir=ctx.scratch)
    os.environ["CGV_APPROXMC_CAPTURE"] = os.path.join(tmpdir, "cap")
    c = make_circuit(ctx, r, case["salt"])
    b0, x0 = snap(c)
    R = recipes(cg, c, r, tmpdir)      # building the recipes already queries the circuit (nodes, type, outputs, inputs)
    a0, xa0 = snap(c)
    evs.append({"kind": "frame", "fn": "Circuit.nodes/type/outputs/inputs", "raised": "", "before": b0, "after": a0, "xb": x0, "xa": xa0,
                "nontrivial": True})
    miss = uncovered(cg, R)
    if miss:
        ctx.stats["functions_without_recipe:" + ",".join(sorted(miss))] = 1
    for fn in sorted(R):
        before, xb = snap(c)
        raised, res = "", None
        try:
            res = R[fn]()
        except Exception as e:
            raised = type(e).__name__
        after, xa = snap(c)
        ctx.count("calls")
        evs.append({"kind": "frame", "fn": fn, "raised": raised, "before": before, "after": after, "xb": xb, "xa": xa,
                    "nontrivial": bool(raised) or bool(circuits_in(res))})
        if fn in ASBUILT and not raised and circuits_in(res):
            evs.append(dict(ASBUILT[fn], kind="as_built", fn=fn, c=before, r=proj(circuits_in(res)[0]), nontrivial=True))
        if (before, xb) != (after, xa):
            # the argument was modified: continue the sweep from a fresh circuit
            c = make_circuit(ctx, ctx.rng("C19", case["salt"]), case["salt"])
            R = recipes(cg, c, r, tmpdir)
            continue
        frozen_any = False
        for k, rc in enumerate(circuits_in(res)[:3]):
            if frozen_any:
                break
            if rc is c:
                # the same object was returned: not a copy; editing it edits the argument by definition
                evs.append({"kind": "alias", "fn": fn, "side": "result", "edit": "identity", "before": before,
                            "after": dict(before, name=before["name"] + "<same object returned>"), "xb": xb, "xa": xa, "nontrivial": True})
                continue
            arg = c.copy() if False else c
            frozen = False
            for side in ("result", "arg"):
                if frozen:
                    break
                target, other = (rc, arg) if side == "result" else (arg, rc)
                for ed in EDITS:
                    ob, oxb = snap(other)
                    tcopy_g, tcopy_b = target.graph.copy(), dict(target.blackboxes)
                    try:
                        do_edit(cg, target, ed, r)
                    except Exception as ex:
                        if side == "arg" and type(ex).__name__ == "NetworkXError":
                            # the call left the argument's graph in a state that refuses edits (frozen): that is a modification
                            evs.append({"kind": "frame", "fn": fn, "raised": "", "before": before,
                                        "after": dict(before, name=before["name"] + "<argument can no longer be edited: %s>" % ex),
                                        "xb": xb, "xa": xa, "nontrivial": True})
                            frozen = frozen_any = True
                            break
                    oa, oxa = snap(other)
                    if (ob, oxb) != (oa, oxa) or r.random() < 0.15:
                        evs.append({"kind": "alias", "fn": fn, "side": side, "edit": ed, "before": ob, "after": oa,
                                    "xb": oxb, "xa": oxa, "nontrivial": True})
                    ctx.count("edits")
                    if side == "arg" and not frozen:
                        # restore the argument so that the sweep goes on with the same circuit
                        target.graph.clear()
                        target.graph.update(tcopy_g)
                        target.graph.graph.update(tcopy_g.graph)
                        target.blackboxes.clear()
                        target.blackboxes.update(tcopy_b)
        if frozen_any:
            # go on with a fresh circuit
            c = make_circuit(ctx, ctx.rng("C19", case["salt"]), case["salt"])
            R = recipes(cg, c, r, tmpdir)
    return evs


def negctl(e, rng):
    if e.get("kind") not in ("frame", "alias"):
        return []
    c = copy.deepcopy(e)
    a = c["after"]
    if not a or not a.get("n"):
        return []
    i = rng.randrange(a["n"])
    a["out"][i] = not a["out"][i]
    c["corruption"] = "output mark of %s flipped in the recorded after-state" % a["names"][i]
    return [c]

"""C04 - the miter output is 1 exactly when the compared circuits differ."""
import copy

from ..proj import build, proj
from . import C01

ID = "C04"
LEVEL = "model_checking"
RULE = ("Traces of tx.miter (result judged by TLC: inputs = tied startpoints, single output sat, truth table of sat = union "
        "over compared endpoints of the symmetric difference of the two copies' truth tables, untied startpoints of each "
        "copy being independent free signals) and of sat.solve(miter, {sat: True}) (judged as in C01, so that False iff "
        "equivalent). Pairs: self-miters (c1 omitted), copies, fan-in-limited versions, one-gate mutations, arbitrary "
        "pairs of TLC-enumerated G1 (no x) and G2 circuits sharing port names, random DAGs incl. constant-driven and "
        "feed-through outputs; startpoints None / all / proper subsets, endpoints None / singletons / subsets; several "
        "hash seeds. distinct = distinct events; non-trivial = the two circuits differ on some compared endpoint or a "
        "proper subset of startpoints/endpoints was chosen")
ASSUMPTIONS = ["node names that collide with names miter creates (sat, dif_<e>, c0_<n>, c1_<n>) make it raise loudly: outside C04's quantifier, not generated",
               "x constants are not generated for C04 (sat must be Boolean)",
               "untied startpoints without fan-out are kept out of the solve events (they occur in no clause; model length semantics of pysat cannot be checked offline)"]


def config(tier):
    q = tier == "quick"
    return {
        "hashseeds": [0, 1] if q else [0, 1, 2, 3, 4, 5, 6, 7],
        "families": ["G1", "G2"],
        "mc": [{"module": "MCTxApi", "cfg": "MCMiter", "workers": 4, "timeout": 900}],
        "shards": 8 if q else 16,
        "negctl": 12,
    }


def mutate_gate(p, rng):
    q = copy.deepcopy(p)
    gates = [i for i, t in enumerate(q["ty"]) if t in ("and", "nand", "or", "nor", "xor", "xnor") and len(q["fi"][i]) >= 2]
    if not gates:
        return None
    i = rng.choice(gates)
    q["ty"][i] = rng.choice([t for t in ("and", "nand", "or", "nor", "xor", "xnor") if t != q["ty"][i]])
    return q


def many_outputs(nout, flip):
    """3 inputs, nout two-input gates that are all outputs; gate `flip` (if any) has the complementary type."""
    import networkx as nx
    from ..proj import proj_graph

    g = nx.DiGraph()
    for i in ("a", "b", "c"):
        g.add_node(i, type="input", output=False)
    types = ["and", "or", "xor", "nand", "nor", "xnor"]
    comp = {"and": "nand", "or": "nor", "xor": "xnor", "nand": "and", "nor": "or", "xnor": "xor"}
    pairs = [("a", "b"), ("b", "c"), ("a", "c")]
    for k in range(nout):
        t = types[k % 6]
        g.add_node("o%02d" % k, type=comp[t] if k == flip else t, output=True)
        for s in pairs[(k // 6) % 3]:
            g.add_edge(s, "o%02d" % k)
    return proj_graph(g, "many")


def const_out(k, extra):
    """Output `k` is a constant node (value k); with `extra` there is an ordinary output y = and(a, b) as well."""
    import networkx as nx
    from ..proj import proj_graph

    g = nx.DiGraph()
    g.add_node("a", type="input", output=False)
    g.add_node("b", type="input", output=False)
    g.add_node("k", type=k, output=True)
    if extra:
        g.add_node("y", type="and", output=True)
        g.add_edges_from([("a", "y"), ("b", "y")])
    else:
        g.add_node("u", type="or", output=False)
        g.add_edges_from([("a", "u"), ("b", "u")])
    return proj_graph(g, "kout")


def subsets(rng, names, proper_only=False):
    names = sorted(names)
    out = [None]
    if names:
        out.append(names)
        out.append([rng.choice(names)])
        if len(names) > 1:
            out.append(rng.sample(names, rng.randint(1, len(names) - 1)))
    return out


def cases(ctx):
    rng = ctx.rng("C04")
    g1 = [p for p in ctx.family("G1") if C01.no_x(p)]
    g2 = ctx.family("G2")
    pairs = []
    for p in (rng.sample(g1, 150) if ctx.quick else g1):
        pairs.append((p, None, "G1self"))
    for _ in range(250 if ctx.quick else 5000):
        pairs.append((rng.choice(g1), rng.choice(g1), "G1pair"))
    for _ in range(200 if ctx.quick else 5000):
        pairs.append((rng.choice(g2), rng.choice(g2), "G2pair"))
    from .. import gen

    for j in range(60 if ctx.quick else 800):
        r = ctx.rng("C04g3", j)
        c = gen.rand_circuit(r, n_in=r.randint(1, 4), n_gates=r.randint(2, 9), max_fanin=4, consts=0.4, out_is_input=0.35, loaded_in_out=0.15)
        p = proj(c)
        kind = r.choice(["self", "copy", "mut", "mut", "lf", "swap", "swap"])
        if kind == "self":
            pairs.append((p, None, "G3self"))
        elif kind == "copy":
            pairs.append((p, copy.deepcopy(p), "G3copy"))
        elif kind == "mut":
            q = mutate_gate(p, r)
            if q:
                pairs.append((p, q, "G3mut"))
        elif kind == "swap":
            # the same port name is a primary input in one circuit and gate-driven (or a fed-through input) in the other
            q = copy.deepcopy(p)
            ins = [i for i, t in enumerate(q["ty"]) if t == "input"]
            if len(ins) >= 2:
                i = r.choice(ins)
                j = r.choice([x for x in ins if x != i])
                # in q, input i becomes not(j): re-index so that the order stays topological
                g = build(q)
                nm, src = q["names"][i], q["names"][j]
                g.graph.nodes[nm]["type"] = r.choice(["not", "buf"])
                g.graph.add_edge(src, nm)
                if r.random() < 0.5:
                    g.graph.nodes[nm]["output"] = True
                pairs.append((p, proj(g), "G3swap") if r.random() < 0.5 else (proj(g), p, "G3swap"))
        else:
            pairs.append((p, "limit_fanin", "G3lf"))
    # a compared endpoint that is a constant node: the same constant in both circuits, or 0 against 1
    for ka, kb in (("0", "0"), ("1", "1"), ("0", "1")):
        for extra in (False, True):
            pairs.append((const_out(ka, extra), const_out(kb, extra), "KOUT"))
    for nout in (8, 9, 16, 17):
        # which comparator a grouping bug would drop depends on set iteration order: every position is tried for 8k+1
        for which in ({0, nout - 1} if ctx.quick and nout % 8 != 1 else set(range(nout))):
            pairs.append((many_outputs(nout, None), many_outputs(nout, which), "MANY"))
    for k, (p0, p1, src) in enumerate(pairs):
        r = ctx.rng("C04s", k)
        in0 = {n for n, t in zip(p0["names"], p0["ty"]) if t == "input"}
        out0 = {n for n, o in zip(p0["names"], p0["out"]) if o}
        if isinstance(p1, dict):
            in1 = {n for n, t in zip(p1["names"], p1["ty"]) if t == "input"}
            out1 = {n for n, o in zip(p1["names"], p1["out"]) if o}
        else:
            in1, out1 = in0, out0
        if not (out0 & out1):
            continue
        ss = subsets(r, in0 & in1)
        es = subsets(r, out0 & out1)
        if isinstance(p1, dict):
            common = [n for n, t in zip(p0["names"], p0["ty"]) if t not in ("input", "0", "1", "x") and n in p1["names"]
                      and p1["ty"][p1["names"].index(n)] not in ("input", "0", "1", "x")]
            if common:     # any net may be compared, not only declared outputs
                es.append(sorted(set(r.sample(common, min(len(common), r.choice([1, 2]))) + r.sample(sorted(out0 & out1), 1))))
                es.append([r.choice(common)])
        combos = [(None, None)] + [(r.choice(ss), r.choice(es)) for _ in range(2)]
        for S, E in combos:
            yield {"op": "miter", "c0": p0, "c1": p1, "S": S, "E": E, "src": src}


def run_case(case, ctx):
    import circuitgraph as cg

    c0 = build(case["c0"], case.get("ord"))
    if case["c1"] == "limit_fanin":
        c1 = cg.tx.limit_fanin(c0, 2)
    elif case["c1"] is None:
        c1 = None
    else:
        c1 = build(case["c1"], case.get("ord"))
    S, E = case["S"], case["E"]
    exc, m = "", None
    rr = ctx.rng("C04rel", case["c0"]["n"], len(case["c0"]["names"][0]))
    if S is None and E is None and rr.random() < 0.3:
        # a history on the same objects: the ports are asked for, a port is renamed in place, then the miter is built
        # with the default startpoints / endpoints (nothing about the old names may be remembered)
        for cc in (c0, c1):
            if cc is not None:
                cc.inputs(), cc.outputs(), cc.startpoints(), cc.endpoints()
        ports = sorted((c0.inputs() | c0.outputs()) - set(n for n in c0.nodes() if "." in n))
        if ports:
            old = rr.choice(ports)
            new = old + "_rn"
            if new not in c0 and (c1 is None or new not in c1):
                c0.relabel({old: new})
                if c1 is not None and old in c1:
                    c1.relabel({old: new})
                case = dict(case, c0=proj(c0), c1=(proj(c1) if (c1 is not None and case["c1"] != "limit_fanin") else case["c1"]))
    try:
        m = cg.tx.miter(c0, c1, startpoints=set(S) if S is not None else None, endpoints=set(E) if E is not None else None)
    except Exception as e:
        exc = type(e).__name__
    pc1 = proj(c1) if c1 is not None else case["c0"]
    if case["c1"] == "limit_fanin":
        pc1 = proj(c1)
    ev = {"kind": "miter", "c0": case["c0"], "c1": pc1, "s_given": bool(S), "S": S or [], "e_given": bool(E), "E": E or [],
          "m": proj(m) if m is not None else {}, "exc": exc}
    ev["nontrivial"] = bool(S or E or (c1 is not None))
    evs = [ev]
    if m is not None and "sat" in m:
        # untied startpoints without fan-out occur in no clause: keep them out of SAT events
        dangling = [n for n in m.nodes() if m.type(n) == "buf" and not m.fanin(n) and not m.fanout(n)]
        if not dangling and len(m.nodes()) <= 60:
            pm = proj(m)
            idx = pm["names"].index("sat") + 1
            try:
                res = cg.sat.solve(m, {"sat": True})
                sev = {"kind": "solve", "c": pm, "assum": [[idx, True]], "exc": "", "nontrivial": True}
                if res is False:
                    sev.update({"sat": False, "res": []})
                else:
                    sev.update({"sat": True, "res": [bool(res[n]) for n in pm["names"]]})
            except Exception as e:
                sev = {"kind": "solve", "c": pm, "assum": [[idx, True]], "exc": type(e).__name__, "sat": False, "res": [], "nontrivial": True}
            evs.append(sev)
    return evs


def negctl(e, rng):
    if e["kind"] != "miter" or e["exc"] or not e["m"]:
        return []
    m = copy.deepcopy(e["m"])
    i = m["names"].index("sat")
    flip = {"or": "nor", "buf": "not"}
    if m["ty"][i] not in flip or not m["fi"][i]:
        return []
    m["ty"][i] = flip[m["ty"][i]]
    c = dict(e)
    c["m"] = m
    c["corruption"] = "sat inverted in the recorded miter"
    return [c]

"""C12 - graph queries agree with their graph-theoretic definitions."""
import copy

from ..proj import build, proj

ID = "C12"
LEVEL = "model_checking"
RULE = ("one event per graph holding the results of every query (fanin fanout transitive_fanin transitive_fanout "
        "startpoints endpoints fanin_depth fanout_depth on every single node and on seeded node lists; levelize topo_sort "
        "is_cyclic reconvergent_fanout_nodes has_reconvergent_fanout kcuts(n,k) k=1..3). Graphs: TLC-enumerated DG4 (all "
        "4096 digraphs on 4 labelled nodes, cyclic ones included), DAG5 (all 1024 DAG shapes on 5 nodes), DAG6 (32768; "
        "thorough, seeded slice in quick) with seeded typing (inputs / constants / blackbox pins / output marks), random "
        "DAGs of 8-14 nodes. Judged by TLC against CGGraph. MCDepth: as-built recursive depth visit under every visiting "
        "order on all DAG5 graphs. MCPaths: the networkx simple-path search behind Circuit.paths as a machine on every DG4 "
        "digraph (+ DAG5 in thorough), every s # t, cutoff and visiting order. distinct = distinct events; non-trivial = graph has >= 3 edges")


def config(tier):
    q = tier == "quick"
    return {
        "hashseeds": [0] if q else [0, 1, 2, 3],
        "families": ["DG4", "DAG5", "DAG6"],
        "mc": [{"module": "MCDepth", "cfg": "MCDepth", "workers": 4, "timeout": 1200},
               {"module": "MCPaths", "cfg": "MCPaths" if q else "MCPathsT", "workers": 4 if q else 12, "timeout": 1200}],
        "shards": 8 if q else 16,
        "negctl": 12,
        "exhaustive": False,
    }


def retype(p, rng, variety):
    """Seeded legal typing of a bare graph: sources are inputs / constants / bb outputs, sinks may be bb inputs."""
    q = copy.deepcopy(p)
    n = q["n"]
    fo = [0] * n
    for i in range(n):
        for j in q["fi"][i]:
            fo[j - 1] += 1
    for i in range(n):
        k = len(q["fi"][i])
        if k == 0:
            q["ty"][i] = rng.choice(["input", "input", "input", "0", "1", "x", "bb_output"]) if variety else "input"
        elif k == 1:
            q["ty"][i] = rng.choice(["buf", "not", "and", "xor", "bb_input" if fo[i] == 0 else "buf"]) if variety else "buf"
        else:
            q["ty"][i] = rng.choice(["and", "nand", "or", "nor", "xor", "xnor"])
        q["out"][i] = (fo[i] == 0 and q["ty"][i] != "bb_input") or (variety and rng.random() < 0.25)
    # bb_output may only drive one buf: demote others to input
    for i in range(n):
        if q["ty"][i] == "bb_output":
            loads = [j for j in range(n) if (i + 1) in q["fi"][j]]
            if len(loads) != 1 or q["ty"][loads[0]] != "buf":
                q["ty"][i] = "input"
    return q


def cases(ctx):
    rng = ctx.rng("C12")
    dg4 = ctx.family("DG4")
    dag5 = ctx.family("DAG5")
    dag6 = ctx.family("DAG6")
    sel = [("DG4", p) for p in (dg4 if not ctx.quick else rng.sample(dg4, 1200))]
    sel += [("DAG5", p) for p in dag5]
    sel += [("DAG6", p) for p in (rng.sample(dag6, 500) if ctx.quick else dag6[:: 2])]
    for k, (src, p) in enumerate(sel):
        r = ctx.rng("C12t", src, k)
        yield {"op": "graph", "c": retype(p, r, k % 3 != 0), "src": src, "salt": k}
    from .. import gen

    for j in range(60 if ctx.quick else 600):
        r = ctx.rng("C12g3", j)
        c = gen.rand_circuit(r, n_in=r.randint(2, 5), n_gates=r.randint(5, 10), max_fanin=3)
        if r.random() < 0.3:
            gen.add_flops(r, c, n_flops=1)
        yield {"op": "graph", "c": proj(c), "src": "G3", "salt": j}


def _depth(f, arg):
    try:
        return int(f(arg))
    except ValueError:
        return -1


def run_case(case, ctx):
    c = build(case["c"], case.get("ord"))
    evs = [query_event(c, case, ctx, 0)]
    r = ctx.rng("C12e", case.get("salt", 0))
    if r.random() < 0.25:
        # the same object queried again after an in-place edit (nothing may be remembered from the first round)
        ns = sorted(c.nodes())
        gates = [n for n in ns if c.type(n) in ("and", "nand", "or", "nor", "xor", "xnor")]
        if gates and r.random() < 0.7:
            v = r.choice(gates)
            cand = [u for u in ns if u != v and u not in c.fanin(v) and u not in c.transitive_fanout(v) and c.type(u) != "bb_input"
                    and c.type(u) != "bb_output"]
            if cand:
                c.graph.add_edge(r.choice(cand), v)
        elif gates and r.random() < 0.5 and c.graph.number_of_edges():
            # move one edge: same number of nodes and edges, different graph (possibly cyclic now)
            u, v = r.choice(sorted(c.graph.edges))
            tgt = [g for g in gates if len(c.fanin(g)) >= 1]
            src = [n for n in ns if c.type(n) in ("and", "nand", "or", "nor", "xor", "xnor", "buf", "not")]
            if c.type(v) not in ("buf", "not", "bb_input") and len(c.fanin(v)) >= 2 and tgt and src:
                a, b = r.choice(src), r.choice(tgt)
                if a != b and not c.graph.has_edge(a, b):
                    c.graph.remove_edge(u, v)
                    c.graph.add_edge(a, b)
        elif c.graph.number_of_edges():
            u, v = r.choice(sorted(c.graph.edges))
            if c.type(v) not in ("buf", "not", "bb_input") and len(c.fanin(v)) >= 2:
                c.graph.remove_edge(u, v)        # the gate keeps a driver: the circuit stays lint-clean
        evs.append(query_event(c, case, ctx, 1))
    return evs


def query_event(c, case, ctx, phase):
    try:
        ev = _query_event(c, case, ctx, phase)
        ev["exc"] = ""
        return ev
    except (Exception, RecursionError) as e:       # a query that raises (or never returns) is a verdict, not a harness failure
        from ..proj import proj as _proj

        p = _proj(c)
        return {"kind": "graph", "c": p, "exc": type(e).__name__, "nontrivial": True, "q": [], "cyclic": False}


def _query_event(c, case, ctx, phase):
    import circuitgraph as cg

    p = proj(c)  # re-project: topological index order when acyclic
    idx = {n: i + 1 for i, n in enumerate(p["names"])}
    names = p["names"]
    rng = ctx.rng("C12q", case.get("salt", 0), phase)
    S = lambda it: sorted(idx[x] for x in it)  # noqa: E731
    qs = []
    lists = [[n] for n in names]
    for _ in range(3):
        k = rng.choice([2, 2, 3])
        if len(names) >= k:
            lists.append(rng.sample(names, k))
    for ns in lists:
        arg = ns[0] if len(ns) == 1 and rng.random() < 0.7 else list(ns)
        qs.append({
            "ns": S(ns),
            "fanin": S(c.fanin(arg)), "fanout": S(c.fanout(arg)),
            "tfi": S(c.transitive_fanin(arg)), "tfo": S(c.transitive_fanout(arg)),
            "sp": S(c.startpoints(arg)), "ep": S(c.endpoints(arg)),
            "fid": _depth(c.fanin_depth, arg), "fod": _depth(c.fanout_depth, arg),
        })
    ev = {"kind": "graph", "c": p, "q": qs, "cyclic": bool(c.is_cyclic()), "sp_all": S(c.startpoints()), "ep_all": S(c.endpoints()),
          "ins_all": S(c.inputs()), "outs_all": S(c.outputs())}
    ev["levels"], ev["levels_raised"], ev["levels_exc"] = [], False, ""
    try:
        lv = cg.props.levelize(c)
        ev["levels"] = [int(lv[n]) for n in names]
    except Exception as e:
        ev["levels_raised"], ev["levels_exc"] = True, type(e).__name__
    ev["topo"], ev["reconv"], ev["has_reconv"], ev["kcuts"] = [], [], False, []
    if not ev["cyclic"]:
        ev["topo"] = [idx[n] for n in c.topo_sort()]
        ev["reconv"] = S(set(c.reconvergent_fanout_nodes()))
        ev["has_reconv"] = bool(c.has_reconvergent_fanout())
        for n in rng.sample(names, min(3, len(names))):
            for k in (3, 2, 1):        # descending: nothing computed for a larger k may leak into a smaller one
                cuts = c.kcuts(n, k)
                ev["kcuts"].append({"n": idx[n], "k": k, "cuts": [S(cut) for cut in cuts]})
    ev["nontrivial"] = sum(len(f) for f in p["fi"]) >= 3
    # beyond the statement of C12 (judged as DRIFT clauses only): Circuit.paths and the plain accessors
    ev["paths"] = []
    if len(names) <= 9 and len(names) >= 2:
        for _ in range(4):
            s_, t_ = rng.sample(names, 2)
            cutoff = rng.choice([-1, -1, 1, 2, 3])
            ps = [[idx[x] for x in path] for path in c.paths(s_, t_, cutoff=None if cutoff == -1 else cutoff)]
            if len(ps) <= 60:
                ev["paths"].append({"s": idx[s_], "t": idx[t_], "cutoff": cutoff, "ps": ps})
    from circuitgraph.circuit import supported_types

    ft = []
    for _ in range(3):
        ts = rng.sample(sorted(supported_types), rng.choice([1, 1, 2, 4]))
        arg = ts[0] if len(ts) == 1 and rng.random() < 0.5 else (ts if rng.random() < 0.5 else set(ts))
        ft.append({"types": sorted(ts), "ns": S(c.filter_type(arg))})
    ev["acc"] = {"nodes": [idx[x] for x in c.nodes()], "edges": [[idx[u], idx[v]] for u, v in c.edges()], "io": S(c.io()),
                 "len": int(len(c)), "is_out": [bool(c.is_output(x)) for x in names], "ft": ft}
    return ev


def negctl(e, rng):
    c = copy.deepcopy(e)
    if e["cyclic"] or not e["q"]:
        return []
    cand = [j for j, q in enumerate(e["q"]) if q["fid"] > 0]
    if not cand:
        return []
    j = rng.choice(cand)
    c["q"][j]["fid"] -= 1
    c["corruption"] = "fanin_depth of %s decreased by one" % c["q"][j]["ns"]
    c2 = copy.deepcopy(e)
    j2 = rng.choice(range(len(e["q"])))
    if c2["q"][j2]["tfo"]:
        c2["q"][j2]["tfo"] = c2["q"][j2]["tfo"][:-1]
        c2["corruption"] = "one node dropped from transitive_fanout"
        return [c, c2]
    return [c]

"""Running TLC: model checking of MC_*.cfg, generation with Gen_*.cfg, and judging recorded events."""
import json
import os
import re
import shutil
import subprocess
import tempfile
import time
from concurrent.futures import ThreadPoolExecutor

SPEC = os.path.join(os.path.dirname(os.path.dirname(os.path.dirname(os.path.abspath(__file__)))), "spec")
JAR = "/opt/veriftools/tla/tla2tools.jar:/opt/veriftools/tla/CommunityModules-deps.jar"


class MachineryError(Exception):
    pass


def _java(args, cwd, env, timeout):
    full_env = dict(os.environ)
    full_env.pop("JAVA_TOOL_OPTIONS", None)
    full_env.update(env or {})
    t0 = time.time()
    try:
        p = subprocess.run(args, cwd=cwd, env=full_env, stdout=subprocess.PIPE, stderr=subprocess.STDOUT,
                           timeout=timeout, text=True, errors="replace")
        out, rc = p.stdout, p.returncode
    except subprocess.TimeoutExpired as e:
        out = (e.stdout or b"")
        if isinstance(out, bytes):
            out = out.decode(errors="replace")
        rc = -9
    return out, rc, time.time() - t0


def run_tlc(module, cfg=None, workers=1, timeout=600, env=None, scratch=None, extra=(), xss="512m", xmx="3g",
            deadlock=True):
    """Run TLC on spec/<module>.tla with spec/<cfg>.cfg.  Returns dict(out, rc, generated, distinct, wall)."""
    own = scratch is None
    scratch = scratch or tempfile.mkdtemp(prefix="cgv_tlc_")
    meta = tempfile.mkdtemp(prefix="meta_%s_" % module, dir=scratch)
    args = ["java", "-XX:+UseParallelGC", "-Xss" + xss, "-Xmx" + xmx, "-DTLA-Library=" + SPEC,
            "-cp", JAR, "tlc2.TLC", "-workers", str(workers), "-metadir", meta, "-noGenerateSpecTE"]
    if cfg:
        args += ["-config", os.path.join(SPEC, cfg if cfg.endswith(".cfg") else cfg + ".cfg")]
    if not deadlock:
        args += ["-deadlock"]
    args += list(extra)
    args += [os.path.join(SPEC, module + ".tla")]
    out, rc, wall = _java(args, SPEC, env, timeout)
    shutil.rmtree(meta, ignore_errors=True)
    if own:
        shutil.rmtree(scratch, ignore_errors=True)
    gen = dist = 0
    m = re.search(r"(\d+) states generated, (\d+) distinct states found", out)
    if m:
        gen, dist = int(m.group(1)), int(m.group(2))
    return {"out": out, "rc": rc, "generated": gen, "distinct": dist, "wall": wall,
            "ok": rc == 0 and "Model checking completed. No error has been found." in out}


def mc(module, cfg, workers=8, timeout=900, extra=(), env=None):
    """Model-check an as-built/intended model.  Any error (invariant violated, evaluation error, timeout)
    is returned to the caller, which decides what it means."""
    r = run_tlc(module, cfg, workers=workers, timeout=timeout, extra=extra, env=env)
    r["violated"] = re.findall(r"Invariant (\S+) is violated|Action property (\S+) is violated|Temporal properties were violated", r["out"])
    return r


NOWIRE = {"case", "hashseed", "src", "tags", "nontrivial", "negctl_of", "corruption", "text"}
VERDICT_RE = re.compile(r'^"(\{.*\})"$')


def _judge_shard(args):
    path, module, cfg, timeout, scratch = args
    r = run_tlc(module, cfg, workers=1, timeout=timeout, env={"TRACE_FILE": path}, scratch=scratch, xmx="4g")
    verdicts = {}
    for line in r["out"].splitlines():
        m = VERDICT_RE.match(line.strip())
        if m:
            try:
                v = json.loads(json.loads('"' + m.group(1) + '"'))
            except Exception:
                continue
            if isinstance(v, dict) and "id" in v and "failed" in v:
                verdicts[v["id"]] = v["failed"]
    return r, verdicts


def judge(events, module="Trace", cfg="Trace", shards=8, timeout=1200, scratch=None):
    """Judge recorded events with TLC.  Returns (verdicts: id -> list of failed clauses, stats).
    Raises MachineryError if TLC did not consume every event of every shard."""
    own = scratch is None
    scratch = scratch or tempfile.mkdtemp(prefix="cgv_judge_")
    try:
        n = len(events)
        if n == 0:
            return {}, {"events": 0, "generated": 0, "distinct": 0, "wall": 0.0}
        shards = max(1, min(shards, (n + 19) // 20))
        # round-robin by estimated cost so that shards finish together
        order = sorted(range(n), key=lambda i: -len(json.dumps(events[i])))
        buckets = [[] for _ in range(shards)]
        for k, i in enumerate(order):
            buckets[k % shards].append(events[i])
        jobs = []
        for s, b in enumerate(buckets):
            path = os.path.join(scratch, "shard_%d.ndjson" % s)
            with open(path, "w") as f:
                for e in b:
                    f.write(json.dumps({k: v for k, v in e.items() if k not in NOWIRE}, separators=(",", ":")) + "\n")
            jobs.append((path, module, cfg, timeout, scratch))
        t0 = time.time()
        with ThreadPoolExecutor(max_workers=shards) as ex:
            results = list(ex.map(_judge_shard, jobs))
        verdicts = {}
        gen = dist = 0
        for (r, v), b in zip(results, buckets):
            if not r["ok"] or r["distinct"] != len(b) + 1:
                tail = "\n".join(r["out"].splitlines()[-40:])
                raise MachineryError("TLC did not accept a shard (%d events, %d states, rc=%s):\n%s"
                                     % (len(b), r["distinct"], r["rc"], tail))
            verdicts.update(v)
            gen += r["generated"]
            dist += r["distinct"]
        return verdicts, {"events": n, "generated": gen, "distinct": dist, "wall": time.time() - t0, "shards": shards}
    finally:
        if own:
            shutil.rmtree(scratch, ignore_errors=True)


def emit(module, cfg, out_path, env=None, workers=8, timeout=900, scratch=None, seed=0):
    """Run an MC config with CGV_EMIT=1: every generated transition is printed by the spec as one JSON line
    (PrintT(ToJson(..))); the decoded lines are written to out_path.  Returns TLC statistics + line count."""
    e = {"CGV_EMIT": "1"}
    e.update(env or {})
    r = run_tlc(module, cfg, workers=workers, timeout=timeout, env=e, scratch=scratch, extra=["-seed", str(seed + 1)])
    n = bad = 0
    with open(out_path, "w") as f:
        for line in r["out"].splitlines():
            if line.startswith('"{'):
                try:
                    txt = json.loads(line)
                    json.loads(txt)
                except Exception:
                    bad += 1
                    continue
                f.write(txt + "\n")
                n += 1
    r["lines"], r["bad_lines"] = n, bad
    r["out"] = "\n".join(l for l in r["out"].splitlines() if not l.startswith('"{'))
    if not r["ok"] and "Model checking completed" not in r["out"]:
        raise MachineryError("emission %s/%s failed:\n%s" % (module, cfg, r["out"][-3000:]))
    return r


def sany(module):
    args = ["java", "-DTLA-Library=" + SPEC, "-cp", JAR, "tla2sany.SANY", os.path.join(SPEC, module + ".tla")]
    out, rc, _ = _java(args, SPEC, None, 120)
    return rc == 0 and "Semantic errors" not in out and "Fatal" not in out and "*** Errors" not in out, out

"""Netlist programs: abstract syntax, seeded generators, and the (trusted) unparsers to Verilog / bench text.

Expression trees:  ("id", name) | ("c", "0"|"1"|"x") | ("~", e) | ("!", e) | (op, a, b) with op in & | ^ ~^ ^~ | ("?:", s, a, b)
The specification sees expressions in postfix (to_postfix); `!` is `~` and `^~` is `~^` there.
Precedence (tightest first): unary, &, ^ ~^ ^~, |, ?:  - binary operators associate to the left.
"""
import random

PREC = {"?:": 1, "|": 2, "^": 3, "~^": 3, "^~": 3, "&": 4, "~": 5, "!": 5}
KEYWORDS = {"module", "endmodule", "input", "output", "wire", "assign", "buf", "not", "and", "nand", "or", "nor", "xor", "xnor"}


def to_postfix(e):
    k = e[0]
    if k == "id":
        return ["$" + e[1]]
    if k == "c":
        return [e[1]]
    if k in ("~", "!"):
        return to_postfix(e[1]) + ["~"]
    if k == "?:":
        return to_postfix(e[1]) + to_postfix(e[2]) + to_postfix(e[3]) + ["?:"]
    op = "~^" if k in ("~^", "^~") else k
    return to_postfix(e[1]) + to_postfix(e[2]) + [op]


def nets_of(e):
    if e[0] == "id":
        return {e[1]}
    if e[0] == "c":
        return set()
    return set().union(*[nets_of(x) for x in e[1:]])


def has_x(e):
    if e[0] == "c":
        return e[1] == "x"
    if e[0] == "id":
        return False
    return any(has_x(x) for x in e[1:])


def ident(n):
    """Escaped identifiers need a trailing blank."""
    return n + " " if n.startswith("\\") else n


def unparse(e, rng, parent=0, noise=0.15, right=False):
    """Minimal parentheses by precedence, plus seeded redundant ones.  The grammar has no rule for a unary operator
    applied directly to a unary operator, nor for a ternary inside anything: those always get parentheses."""
    k = e[0]
    if k == "id":
        s = ident(e[1])
        return "(%s)" % s if rng.random() < noise / 3 else s
    if k == "c":
        return rng.choice(["1'b", "1'h"]) + e[1]
    if k in ("~", "!"):
        inner = e[1]
        s = unparse(inner, rng, 0) if inner[0] not in ("id", "c") else unparse(inner, rng, 5)
        if inner[0] not in ("id", "c"):
            s = "(" + s + ")"
        res = k + ("" if rng.random() < 0.7 else " ") + s
        need = parent > 5
    elif k == "?:":
        # operands of ?: are or-level expressions in the grammar
        parts = []
        for x in e[1:]:
            t = unparse(x, rng, 2)
            if x[0] == "?:":
                t = "(" + t + ")"
            parts.append(t)
        if parent >= 1:
            raise ValueError("ternary below another operator cannot be expressed in the grammar")
        return "%s ? %s : %s" % tuple(parts)      # never parenthesised: the grammar has no rule for that
    else:
        p = PREC[k]
        a = unparse(e[1], rng, p, noise)
        b = unparse(e[2], rng, p, noise, right=True)
        sp = rng.choice(["", " ", " ", "  "])
        sp2 = sp
        if k == "^" and b.lstrip().startswith("~") and not sp2:
            sp2 = " "          # `a^~b` would be lexed as the xnor operator `^~`
        res = a + sp + k + sp2 + b
        need = parent > p or (right and parent == p)
    if need or rng.random() < noise:
        return "(" + res + ")"
    return res


_REUSE = []      # sub-expressions of the program being generated (the same sub-expression may recur in later statements)


def rand_expr(rng, nets, depth, consts=0.12, xconst=0.0, allow_ternary=True, top=True):
    if _REUSE and depth > 0 and rng.random() < 0.12:
        e = rng.choice(_REUSE)
        if nets_of(e) <= set(nets) and not (top is False and e[0] == "?:"):
            return e
    e = _rand_expr(rng, nets, depth, consts, xconst, allow_ternary, top)
    if e[0] not in ("id", "c", "?:") and len(_REUSE) < 40:
        _REUSE.append(e)
    return e


def _rand_expr(rng, nets, depth, consts=0.12, xconst=0.0, allow_ternary=True, top=True):
    if depth == 0 or rng.random() < 0.25:
        r = rng.random()
        if r < xconst:
            return ("c", "x")
        if r < consts:
            return ("c", rng.choice(["0", "1"]))
        return ("id", rng.choice(nets))
    r = rng.random()
    if top and allow_ternary and r < 0.15:
        # no x in the select cone (X-merging of Verilog's ?: differs from the gate-level decomposition)
        return ("?:", rand_expr(rng, nets, depth - 1, consts, 0.0, False, False),
                rand_expr(rng, nets, depth - 1, consts, xconst, False, False),
                rand_expr(rng, nets, depth - 1, consts, xconst, False, False))
    if r < 0.3:
        return (rng.choice(["~", "~", "!"]), rand_expr(rng, nets, depth - 1, consts, xconst, False, False))
    op = rng.choice(["&", "|", "^", "~^", "^~", "&", "|", "^"])
    a = rand_expr(rng, nets, depth - 1, consts, xconst, False, False)
    b = a if rng.random() < 0.08 else rand_expr(rng, nets, depth - 1, consts, xconst, False, False)   # repeated sub-expression
    return (op, a, b)


NAME_POOLS = {
    "plain": ["a", "b", "c", "d", "y", "z", "w", "n1", "n2", "n3", "q0", "o_1", "sig"],
    "synthetic": ["not_a", "and_a_b", "or_a_b", "xor_a_b", "xnor_a_b", "mux_o_a_b_c", "not_b", "and_b_c", "g_0", "g_1", "tie0", "tie1", "tie_0", "tie_1", "a_dup", "not_a_0", "and_a_b_0", "tie_0_0", "xor_a_b_0",
                  "a", "b", "c", "y", "z", "w"],
    "escaped": ["\\a[0]", "\\b.c", "\\n$1", "a", "b", "y", "\\y[1]", "z", "w", "c", "\\y,x", "x", "\\n(1)", "\\q;r"],
}


def rand_program(rng, style="mixed", pool="plain", n_in=None, n_items=None, bb=0.0, xconst=0.05, depth=3, allow_ternary=True):
    """A random program: items in dependency order; text order is a separate permutation."""
    del _REUSE[:]
    names = list(NAME_POOLS[pool])
    rng.shuffle(names)
    n_in = n_in or rng.randint(1, 4)
    inputs = names[:n_in]
    rest = names[n_in:]
    avail = list(inputs)
    items = []
    bbtypes = []
    wires = []
    n_items = n_items or rng.randint(1, 5)
    for j in range(n_items):
        if not rest:
            break
        out = rest.pop()
        r = rng.random()
        n_pins = sum(len(t2["ins"]) + len(t2["outs"]) for it2 in items if it2["k"] == "bb" for t2 in bbtypes if t2["type"] == it2["type"])
        if bb and r < bb and len(rest) >= 1 and n_in + n_pins + 4 <= 11:
            # library cells are sometimes called like a primitive in another case (BUF, NAND ...): identifiers are case-sensitive
            t = ({"type": rng.choice(["ff", "ff", "ff", "NAND", "Xor"]), "ins": ["CK", "D"], "outs": ["Q", "QN"]} if rng.random() < 0.5
                 else {"type": rng.choice(["cell", "cell", "cell", "BUF", "Not"]), "ins": ["A"], "outs": ["Y"]})
            if bbtypes and rng.random() < 0.7:
                t = rng.choice(bbtypes)             # another instance of a cell type that is already there
            if t not in bbtypes:
                bbtypes.append(t)
            conns = []
            for p in t["ins"]:
                m = rng.random()
                if m < 0.75:
                    conns.append([p, ("id", rng.choice(avail))])
                elif m < 0.9:
                    conns.append([p, None])          # .p()
            first = True
            for p in t["outs"]:
                if first:
                    conns.append([p, ("id", out)])
                    first = False
                elif rng.random() < 0.4:
                    conns.append([p, None])
            rng.shuffle(conns)
            items.append({"k": "bb", "type": t["type"], "inst": "u%d" % j, "conns": conns})
        elif style == "gates" or (style == "mixed" and r < 0.5):
            t = rng.choice(["buf", "not", "and", "nand", "or", "nor", "xor", "xnor"])
            k = 1 if t in ("buf", "not") else rng.randint(1, 4)
            ins = []
            for _ in range(k):
                if rng.random() < 0.15:
                    ins.append(("c", rng.choice(["0", "1"])))
                else:
                    ins.append(("id", rng.choice(avail)))
            items.append({"k": "gate", "t": t, "out": out, "ins": ins})
        else:
            items.append({"k": "assign", "lhs": out, "rhs": rand_expr(rng, avail, rng.randint(0, depth), xconst=xconst, allow_ternary=allow_ternary)})
        avail.append(out)
        wires.append(out)
    driven = [w for w in wires]
    used = set()
    for it in items:
        if it["k"] == "gate":
            for e in it["ins"]:
                used |= nets_of(e)
        elif it["k"] == "assign":
            used |= nets_of(it["rhs"])
        else:
            for p, e in it["conns"]:
                if e is not None and p in next(t for t in bbtypes if t["type"] == it["type"])["ins"]:
                    used |= nets_of(e)
    outputs = [w for w in driven if w not in used or rng.random() < 0.2]
    if rng.random() < 0.15 and inputs:
        outputs.append(rng.choice(inputs))            # an output that is an input
    if not outputs and driven:
        outputs = [driven[-1]]
    return {"name": "top", "inputs": inputs, "outputs": outputs, "wires": [w for w in wires if w not in outputs or rng.random() < 0.5],
            "items": items, "bbtypes": bbtypes}


def to_spec(prog):
    """JSON form for the specification: expressions in postfix, unconnected pins as empty sequences."""
    items = []
    for it in prog["items"]:
        if it["k"] == "gate":
            items.append({"k": "gate", "t": it["t"], "out": it["out"], "ins": [to_postfix(e) for e in it["ins"]]})
        elif it["k"] == "assign":
            items.append({"k": "assign", "lhs": it["lhs"], "rhs": to_postfix(it["rhs"])})
        else:
            items.append({"k": "bb", "type": it["type"], "inst": it["inst"],
                          "conns": [[p, to_postfix(e) if e is not None else []] for p, e in it["conns"]]})
    return {"name": prog["name"], "ports": prog["inputs"] + prog["outputs"], "inputs": prog["inputs"], "outputs": prog["outputs"],
            "items": items, "bbtypes": prog["bbtypes"]}


def ws(rng, must=False):
    opts = [" ", " ", "  ", "\t", "\n", " \n  "]
    return rng.choice(opts) if must or rng.random() < 0.5 else ""


def comment(rng):
    r = rng.random()
    if r < 0.06:
        return " // c%d\n" % rng.randint(0, 9)
    if r < 0.1:
        return " /* c * %d */ " % rng.randint(0, 9)
    return ""


def verilog_text(prog, rng, comments=True, noise=0.15, group_gates=True, ports=None, decl_last=False):
    """Unparse with seeded layout: statement order is a random permutation (use before definition), several instances
    per statement, comments and blank runs.  `ports` overrides the port list (for rejection tests)."""
    def cm():
        return comment(rng) if comments else ""

    def idl(ns):
        return ("," + ws(rng)).join(ident(n) for n in ns)

    stm = []
    for idx, it in enumerate(prog["items"]):
        if it["k"] == "gate":
            args = [ident(it["out"])] + [unparse(e, rng, 0, noise) for e in it["ins"]]
            stm.append(("g", it["t"], "g%d" % len(stm) + ws(rng) + "(" + ws(rng) + ("," + ws(rng)).join(args) + ws(rng) + ")", idx))
        elif it["k"] == "assign":
            stm.append(("a", None, "assign" + ws(rng, True) + ident(it["lhs"]) + ws(rng) + "=" + ws(rng) + unparse(it["rhs"], rng, 0, noise), idx))
        else:
            cs = []
            for p, e in it["conns"]:
                cs.append("." + p + ws(rng) + "(" + ("" if e is None else unparse(e, rng, 0, noise)) + ")")
            stm.append(("b", it["type"], it["type"] + ws(rng, True) + it["inst"] + ws(rng) + "(" + ("," + ws(rng)).join(cs) + ")", idx))
    rng.shuffle(stm)
    bbt = sorted({x[1] for x in stm if x[0] == "b"})
    if bbt and rng.random() < 0.6:
        # instances of one cell type next to each other (they may then share a statement)
        t0 = rng.choice(bbt)
        same = [x for x in stm if x[0] == "b" and x[1] == t0]
        if len(same) >= 2:
            pos = stm.index(same[0])
            stm = [x for x in stm if x not in same[1:]]
            pos = stm.index(same[0])
            stm[pos + 1:pos + 1] = same[1:]
    # several primitive instances of the same type in one statement
    lines = []
    i = 0
    line_items = {}
    while i < len(stm):
        k, t, s, idx = stm[i]
        if k == "g":
            grp = [s]
            idxs = [idx]
            while group_gates and i + 1 < len(stm) and stm[i + 1][0] == "g" and stm[i + 1][1] == t and rng.random() < 0.5:
                i += 1
                grp.append(stm[i][2])
                idxs.append(stm[i][3])
            lines.append(t + ws(rng, True) + ("," + ws(rng)).join(grp) + ws(rng) + ";")
        elif k == "b":
            # several instances of one cell type in one statement:  ff u0 (...), u1 (...);
            grp = [s]
            idxs = [idx]
            while group_gates and i + 1 < len(stm) and stm[i + 1][0] == "b" and stm[i + 1][1] == t and rng.random() < 0.6:
                i += 1
                grp.append(stm[i][2][len(t):].lstrip())
                idxs.append(stm[i][3])
            lines.append(("," + ws(rng)).join(grp) + ws(rng) + ";")
        else:
            lines.append(s + ws(rng) + ";")
            idxs = [idx]
        line_items[id(lines[-1])] = idxs
        i += 1
    decls = []
    for kw, ns in (("input", prog["inputs"]), ("output", prog["outputs"]), ("wire", prog["wires"])):
        ns = list(ns)
        while ns:
            k = rng.randint(1, len(ns))
            decls.append(kw + ws(rng, True) + idl(ns[:k]) + ws(rng) + ";")
            ns = ns[k:]
    if not decl_last:
        rng.shuffle(decls)
        # inputs must be declared before use by this reader only in the sense that the node type is set at the end:
        # any order is in the quantifier ("any ordering of declarations, instances and assigns")
        body = decls + lines
        if rng.random() < 0.5:
            rng.shuffle(body)
    else:
        body = lines + decls
    pl = list(prog["inputs"] + prog["outputs"]) if ports is None else list(ports)
    seen = []
    for n in pl:
        if n not in seen:
            seen.append(n)
    txt = cm() + "module" + ws(rng, True) + prog["name"] + ws(rng) + "(" + ws(rng) + idl(seen) + ws(rng) + ");" + cm() + "\n"
    text_order = []
    for b in body:
        txt += ws(rng) + b + cm() + "\n"
        text_order += line_items.get(id(b), [])
    txt += "endmodule\n" + cm()
    prog["_text_order"] = text_order        # item indices in the order the statements appear in the text
    return txt


def fast_subset_text(prog, rng):
    """Writer-like layout for the fast parser's documented subset: no comments, one named primitive instance per statement,
    operands are nets or 1'b0/1'b1, assigns of a net or constant only; any non-empty run of blanks where the writer puts
    blanks, optional runs elsewhere, never between `)` and `;`."""
    def W():
        return rng.choice([" ", "  ", "\t", "\n", " \n "])

    def w():
        return rng.choice(["", "", " ", "\n  "])

    def opnd(e):
        return e[1] if e[0] == "id" else "1'b" + e[1]

    stm = []
    for k, it in enumerate(prog["items"]):
        # the writer puts ", " between terminals / port connections: the blank run after a comma is never empty;
        # an unconnected pin is written `.p()` with nothing between the parentheses
        if it["k"] == "gate":
            args = [it["out"]] + [opnd(e) for e in it["ins"]]
            iname = "g_%d" % k if rng.random() < 0.8 else "ABCDEFGHJK"[k % 10]        # one-character instance names too
            stm.append(it["t"] + W() + iname + w() + "(" + w() + ("," + W()).join(args) + w() + ");")
        elif it["k"] == "assign":
            stm.append("assign" + W() + it["lhs"] + w() + "=" + w() + opnd(it["rhs"]) + w() + ";")
        else:
            cs = ["." + w() + p + w() + ("()" if e is None else "(" + w() + opnd(e) + w() + ")") for p, e in it["conns"]]
            stm.append(it["type"] + W() + it["inst"] + w() + "(" + w() + ("," + W()).join(cs) + w() + ");")
    rng.shuffle(stm)
    ports = []
    for n in prog["inputs"] + prog["outputs"]:
        if n not in ports:
            ports.append(n)
    txt = "module" + W() + prog["name"] + w() + "(" + w() + ("," + W()).join(ports) + w() + ");\n"
    for kw, ns in (("input", prog["inputs"]), ("output", prog["outputs"]), ("wire", prog["wires"])):
        ns = list(ns)
        while ns:      # one net per declaration (the writer) or several (synthesis tools)
            k = 1 if rng.random() < 0.5 else rng.randint(1, len(ns))
            txt += w() + kw + " " + w() + ("," + W()).join(ns[:k]) + w() + ";\n"
            ns = ns[k:]
    for s in stm:
        txt += w() + s + "\n"
    return txt + "endmodule\n"


def fast_program(rng, bb=0.3):
    """Program inside the fast parser's subset."""
    p = rand_program(rng, style="gates", pool=rng.choice(["plain", "plain", "synthetic"]), bb=bb, xconst=0.0)
    items = []
    for it in p["items"]:
        if it["k"] == "bb":
            # input pins may be tied to a constant (sometimes the only use of that constant in the netlist)
            ins = next(t for t in p["bbtypes"] if t["type"] == it["type"])["ins"]
            it = dict(it, conns=[[pn, (("c", rng.choice(["0", "1"])) if (pn in ins and e is not None and rng.random() < 0.25) else e)]
                                 for pn, e in it["conns"]])
        elif it["k"] == "gate" and it["t"] in ("xor", "xnor") and rng.random() < 0.2:
            # repeated operands of a parity gate: a net two or three times, the same constant twice
            extra = rng.choice([[it["ins"][0]], [it["ins"][0], it["ins"][0]], [("c", "1"), ("c", "1")], [("c", "0"), ("c", "0"), it["ins"][-1]]])
            ins2 = list(it["ins"]) + extra
            rng.shuffle(ins2)
            it = dict(it, ins=ins2)
        items.append(it)
    # a few assigns of a net or a constant
    names = [n for n in NAME_POOLS["plain"] if n not in p["inputs"] and n not in p["wires"] and n not in p["outputs"]]
    avail = list(p["inputs"]) + [it.get("out") or it.get("lhs") for it in items if it["k"] != "bb"]
    for _ in range(rng.randint(0, 2)):
        if names and avail:
            lhs = names.pop()
            rhs = ("c", rng.choice(["0", "1"])) if rng.random() < 0.4 else ("id", rng.choice([a for a in avail if a]))
            items.append({"k": "assign", "lhs": lhs, "rhs": rhs})
            p["outputs"].append(lhs)
    p["items"] = items
    return p


def bench_program(rng, n_in=None):
    names = ["a", "b", "c", "d", "n1", "n2", "n3", "q1", "q2", "y", "z", "G17", "n_20", "a_dup", "b_dup_0"]
    rng.shuffle(names)
    n_in = n_in or rng.randint(1, 3)
    inputs, rest = names[:n_in], names[n_in:]
    avail = list(inputs)
    items = []
    bbtypes = [{"type": "dff", "ins": ["D"], "outs": ["Q"]}]
    # DFFs first (their Q nets are free signals usable by every gate); their D nets are chosen at the end
    dffs = []
    for _ in range(rng.choice([0, 0, 1, 2])):
        q = rest.pop()
        dffs.append(q)
        avail.append(q)
    gates = []
    for _ in range(rng.randint(1, 5)):
        if not rest:
            break
        out = rest.pop()
        t = rng.choice(["buf", "not", "and", "nand", "or", "nor", "xor", "xnor"])
        k = 1 if t in ("buf", "not") else rng.randint(1, 3)
        ins = rng.sample(avail, min(k, len(avail)))
        if t not in ("buf", "not") and rng.random() < 0.12:
            ins = ins + [rng.choice(ins) for _ in range(rng.choice([1, 1, 2]))]     # a net repeated among the operands
            rng.shuffle(ins)
        gates.append({"k": "gate", "t": t, "out": out, "ins": [("id", x) for x in ins]})
        avail.append(out)
    items = list(gates)
    for q in dffs:
        d = rng.choice([a for a in avail if a != q] or avail)
        items.append({"k": "bb", "type": "dff", "inst": q + "_dff", "conns": [["D", ("id", d)], ["Q", ("id", q)]]})
    used = set()
    for it in items:
        if it["k"] == "gate":
            used |= {e[1] for e in it["ins"]}
        else:
            used.add(it["conns"][0][1][1])
    outs = [g["out"] for g in gates if g["out"] not in used or rng.random() < 0.3]
    outs += [q for q in dffs if q not in used]
    if rng.random() < 0.2:
        outs.append(rng.choice(inputs))
    if not outs:
        outs = [gates[-1]["out"]]
    return {"name": "bench", "inputs": inputs, "outputs": outs, "wires": [], "items": items, "bbtypes": bbtypes}


def bench_text(prog, rng):
    up = rng.random() < 0.5

    def W():
        return rng.choice(["", "", " ", "  ", "\t"])

    lines = []
    for n in prog["inputs"]:
        lines.append(("INPUT" if rng.random() < 0.7 else "input") + W() + "(" + W() + n + W() + ")")
    for n in prog["outputs"]:
        lines.append(("OUTPUT" if rng.random() < 0.7 else "output") + W() + "(" + W() + n + W() + ")")
    for it in prog["items"]:
        if it["k"] == "gate":
            t = it["t"]
            if t == "buf" and rng.random() < 0.5:
                t = "buff"
            t = t.upper() if (up or rng.random() < 0.5) else t
            sep = rng.choice([",", ", ", " , ", ",\t", " ,"])
            lines.append(it["out"] + W() + "=" + W() + t + "(" + W() + sep.join(e[1] for e in it["ins"]) + W() + ")")
        else:
            q = it["conns"][1][1][1]
            d = it["conns"][0][1][1]
            lines.append(q + W() + "=" + W() + rng.choice(["DFF", "dff"]) + "(" + W() + d + W() + ")")
    rng.shuffle(lines)
    return "# generated\n" + "\n".join(lines) + "\n"


def parse_writer_text(text, bbtypes):
    """Abstract syntax (the JSON form of to_spec, items in TEXT order) of a netlist laid out as io.circuit_to_verilog
    writes it: one statement per line, `assign l = <net | ~net | a op b op c | ~(a op b) | 1'b.>`, primitives
    `type name(out, in...)`, instances `type name (.pin(net), .pin())`.  Only used to bind the writer model to the text
    the real writer produced (drift clauses); anything it cannot read makes it return None."""
    import re

    ident = r"\\\S+|[A-Za-z_][A-Za-z_0-9$]*"
    m = re.match(r"\s*module\s+(%s)\s*\((.*?)\);" % ident, text, re.S)
    if not m:
        return None
    name = m.group(1)
    ports = [x.strip() for x in m.group(2).split(",") if x.strip()]
    body = text[m.end():]
    inputs, outputs, wires, items = [], [], [], []
    bbn = {t["type"]: t for t in bbtypes}

    def operand(tok):
        tok = tok.strip()
        if tok in ("1'b0", "1'b1", "1'bx"):
            return [tok[-1]]
        if re.fullmatch(ident, tok):
            return ["$" + tok]
        raise ValueError(tok)

    try:
        for raw in body.split(";"):
            st = raw.strip()
            if not st or st == "endmodule":
                continue
            kw = st.split(None, 1)[0]
            rest = st[len(kw):].strip()
            if kw in ("input", "output", "wire"):
                {"input": inputs, "output": outputs, "wire": wires}[kw].append(rest.strip())
            elif kw == "assign":
                lhs, rhs = [x.strip() for x in rest.split("=", 1)]
                neg = False
                if rhs.startswith("~(") and rhs.endswith(")"):
                    neg, rhs = True, rhs[2:-1].strip()
                elif rhs.startswith("~"):
                    neg, rhs = True, rhs[1:].strip()
                toks = rhs.split(" ")
                # operands and operators alternate: a op b op c  (escaped names end with a blank the writer adds)
                toks = [t for t in toks if t != ""]
                ex = operand(toks[0])
                k = 1
                while k < len(toks):
                    op = toks[k]
                    if op not in ("&", "|", "^"):
                        raise ValueError(op)
                    ex = ex + operand(toks[k + 1]) + [op]
                    k += 2
                if neg:
                    ex = ex + ["~"]
                items.append({"k": "assign", "lhs": lhs, "rhs": ex})
            elif kw in bbn:
                mm = re.match(r"(%s)\s*\((.*)\)\s*$" % ident, rest, re.S)
                conns = []
                for c in re.finditer(r"\.(%s)\((.*?)\)" % ident, mm.group(2)):
                    conns.append([c.group(1), operand(c.group(2)) if c.group(2).strip() else []])
                items.append({"k": "bb", "type": kw, "inst": mm.group(1), "conns": conns})
            else:
                mm = re.match(r"(%s)\s*\((.*)\)\s*$" % ident, rest, re.S)
                args = [a for a in (x.strip() for x in mm.group(2).split(",")) if a]
                items.append({"k": "gate", "t": kw, "out": args[0], "ins": [operand(a) for a in args[1:]]})
    except Exception:
        return None
    return {"name": name, "ports": ports, "inputs": inputs, "outputs": outputs, "wires": wires, "items": items, "bbtypes": bbtypes}

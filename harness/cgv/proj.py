"""Projection of circuitgraph objects onto the abstract state used by the specification.

The projection is the *indexed circuit* of spec/CGTypes.tla:
  {name, n, names, ty, out, fi, bbs, acyc}
Nodes are listed in a deterministic topological order when the graph is acyclic (acyc = true; the
specification re-checks the order with IsTopo), otherwise sorted by name.
"""
import heapq

NOTYPE = "<none>"


def topo_or_sorted(g):
    """Deterministic Kahn order (ties by name); None if cyclic."""
    indeg = {n: g.in_degree(n) for n in g.nodes}
    heap = [str(n) for n, d in indeg.items() if d == 0]
    heapq.heapify(heap)
    order = []
    while heap:
        n = heapq.heappop(heap)
        order.append(n)
        for s in g.successors(n):
            indeg[s] -= 1
            if indeg[s] == 0:
                heapq.heappush(heap, s)
    if len(order) != len(indeg):
        return None
    return order


def proj_graph(g, name="circuit", blackboxes=None):
    order = topo_or_sorted(g)
    acyc = order is not None
    if not acyc:
        order = sorted(str(n) for n in g.nodes)
    idx = {n: i + 1 for i, n in enumerate(order)}
    ty, out, fi = [], [], []
    for n in order:
        a = g.nodes[n]
        t = a.get("type", NOTYPE)
        ty.append(t if isinstance(t, str) else repr(t))
        out.append(bool(a.get("output", False)))
        fi.append(sorted(idx[p] for p in g.predecessors(n)))
    bbs = []
    for inst in sorted(blackboxes or {}):
        bb = blackboxes[inst]
        bbs.append(
            {
                "inst": str(inst),
                "type": str(bb.name),
                "ins": sorted(str(x) for x in bb.inputs()),
                "outs": sorted(str(x) for x in bb.outputs()),
            }
        )
    return {
        "name": str(name),
        "n": len(order),
        "names": order,
        "ty": ty,
        "out": out,
        "fi": fi,
        "bbs": bbs,
        "acyc": acyc,
    }


def proj(c):
    return proj_graph(c.graph, c.name, c.blackboxes)


def build(p, order_seed=None):
    """Inverse of proj: build a Circuit directly on the graph (no API checks).
    order_seed: insert the nodes in a seeded random order instead of the topological one (iteration over a graph
    follows insertion order, so `for n in c` then meets gates before their fan-in)."""
    import networkx as nx
    import circuitgraph as cg

    g = nx.DiGraph()
    idxs = list(range(len(p["names"])))
    if order_seed is not None:
        import random

        random.Random("ins/%s" % order_seed).shuffle(idxs)
    for i in idxs:
        n = p["names"][i]
        attrs = {}
        if p["ty"][i] != NOTYPE:
            attrs["type"] = p["ty"][i]
        attrs["output"] = p["out"][i]
        g.add_node(n, **attrs)
    for i, n in enumerate(p["names"]):
        for j in p["fi"][i]:
            g.add_edge(p["names"][j - 1], n)
    bbs = {b["inst"]: cg.BlackBox(b["type"], b["ins"], b["outs"]) for b in p.get("bbs", [])}
    return cg.Circuit(name=p.get("name", "circuit"), graph=g, blackboxes=bbs)


def snapshot(c):
    """Hashable deep snapshot of a circuit (for frame conditions)."""
    g = c.graph
    return (
        c.name,
        tuple(sorted((str(n), tuple(sorted((str(k), repr(v)) for k, v in g.nodes[n].items()))) for n in g.nodes)),
        tuple(sorted((str(u), str(v), tuple(sorted((str(k), repr(w)) for k, w in d.items()))) for u, v, d in g.edges(data=True))),
        tuple(sorted((str(k), str(b.name), tuple(sorted(b.inputs())), tuple(sorted(b.outputs()))) for k, b in c.blackboxes.items())),
    )

"""pytest plugin: records every construction-API history that the repository's OWN test suite (and the library
code it calls) performs on small Circuit objects, as `api_history` events for the specification (JudgeApi).

No source hooks: the public mutators of circuitgraph.Circuit are wrapped at run time, in this process only.
  pytest -p cgv.testtrace ...      with CGV_TESTTRACE_OUT=<ndjson path>
One history per Circuit object: the abstract state before the first recorded call, then one step per OUTERMOST
mutator call (calls a mutator makes on the same thread while it runs are part of that step) with its arguments, the
exception it raised (if any), the returned name and the abstract post-state.  A history stops being extended when
the object grows beyond MAXN nodes or MAXSTEPS steps (the recorded prefix is still a history of the real object).
Calls whose argument forms the API model does not cover (add with add_connected_nodes / allow_redefinition, relabel)
are recorded as opaque steps: the legality invariants are still judged on their post-states.
"""
import json
import os
import threading
import weakref

MAXN = 14
MAXSTEPS = 30
MAXHIST = 400

_local = threading.local()
_hist = {}          # id(obj) -> record
_order = []
_alive = weakref.WeakValueDictionary()


def _lst(x):
    if x is None:
        return []
    if isinstance(x, str):
        return [x]
    return [str(y) for y in x]


def _conns(d):
    out = []
    for k, v in (d or {}).items():
        out.append([str(k), _lst(v)])
    return out


def _args(op, args, kw, proj):
    """Arguments in the form of JudgeApi (None -> the step is opaque)."""
    import inspect  # noqa: F401

    def get(i, name, default=None):
        if name in kw:
            return kw[name]
        return args[i] if len(args) > i else default

    if op == "add":
        if get(5, "add_connected_nodes", False) or get(6, "allow_redefinition", False):
            return None
        fanin, fanout = get(2, "fanin"), get(3, "fanout")
        # a set argument has no order: the model takes sequences (duplicates matter only for lists)
        if isinstance(fanin, (set, frozenset)) or isinstance(fanout, (set, frozenset)):
            fanin, fanout = sorted(fanin or []), sorted(fanout or [])
        return {"n": str(get(0, "n")), "t": str(get(1, "node_type")), "fanin": _lst(fanin), "fanout": _lst(fanout),
                "output": bool(get(4, "output", False)), "uid": bool(get(7, "uid", False))}
    if op in ("connect", "disconnect"):
        us, vs = get(0, "us"), get(1, "vs")
        if isinstance(us, (set, frozenset)):
            us = sorted(us)
        if isinstance(vs, (set, frozenset)):
            vs = sorted(vs)
        return {"us": _lst(us), "vs": _lst(vs)}
    if op == "remove":
        ns = get(0, "ns")
        return {"ns": sorted(ns) if isinstance(ns, (set, frozenset)) else _lst(ns)}
    if op == "set_output":
        ns = get(0, "ns")
        return {"ns": sorted(ns) if isinstance(ns, (set, frozenset)) else _lst(ns), "val": bool(get(1, "output", True))}
    if op == "set_type":
        ns = get(0, "ns")
        return {"ns": sorted(ns) if isinstance(ns, (set, frozenset)) else _lst(ns), "t": str(get(1, "t"))}
    if op == "add_blackbox":
        bb = get(0, "blackbox")
        return {"bb": {"type": str(bb.name), "ins": sorted(bb.inputs()), "outs": sorted(bb.outputs())}, "name": str(get(1, "name")),
                "conns": _conns(get(2, "connections"))}
    if op == "add_subcircuit":
        sc = get(0, "sc")
        if len(sc.graph) > MAXN:
            return None
        return {"sc": proj(sc), "name": str(get(1, "name")), "conns": _conns(get(2, "connections")), "strip": bool(get(3, "strip_io", True))}
    if op == "fill_blackbox":
        sc = get(1, "c")
        if len(sc.graph) > MAXN:
            return None
        return {"name": str(get(0, "name")), "sc": proj(sc)}
    if op == "remove_unloaded":
        return {"inputs": bool(get(0, "inputs", False))}
    return None


def _wrap(cls, op, proj):
    orig = getattr(cls, op)

    def wrapper(self, *args, **kw):
        depth = getattr(_local, "depth", 0)
        if depth:
            return orig(self, *args, **kw)
        rec = _hist.get(id(self))
        if rec is None or _alive.get(id(self)) is not self:
            if len(_order) >= MAXHIST or len(self.graph) > MAXN:
                return orig(self, *args, **kw)
            try:
                rec = {"init": proj(self), "steps": [], "closed": False}
            except Exception:
                return orig(self, *args, **kw)
            _hist[id(self)] = rec
            _alive[id(self)] = self
            _order.append(rec)
        if rec["closed"]:
            return orig(self, *args, **kw)
        try:
            a = _args(op, args, kw, proj)
        except Exception:
            a = None
        _local.depth = 1
        exc, ret = "", ""
        try:
            ret = orig(self, *args, **kw)
            return ret
        except BaseException as e:
            exc = type(e).__name__
            raise
        finally:
            _local.depth = 0
            try:
                if len(self.graph) > MAXN or len(rec["steps"]) >= MAXSTEPS:
                    rec["closed"] = True
                else:
                    step = {"op": op if a is not None else "opaque_" + op, "a": a if a is not None else {}, "post": proj(self),
                            "exc": exc, "ret": ret if (op == "add" and isinstance(ret, str) and not exc) else ""}
                    rec["steps"].append(step)
            except Exception:
                rec["closed"] = True

    wrapper.__name__ = op
    wrapper.__doc__ = orig.__doc__
    setattr(cls, op, wrapper)


def pytest_configure(config):
    import circuitgraph as cg
    from cgv.proj import proj

    for op in ("add", "connect", "disconnect", "remove", "set_output", "set_type", "add_blackbox", "add_subcircuit",
               "fill_blackbox", "remove_unloaded", "relabel"):
        _wrap(cg.Circuit, op, proj)


def pytest_sessionfinish(session, exitstatus):
    out = os.environ.get("CGV_TESTTRACE_OUT")
    if not out:
        return
    with open(out, "w") as f:
        for rec in _order:
            if rec["steps"]:
                f.write(json.dumps({"kind": "api_history", "init": rec["init"], "steps": rec["steps"]}, separators=(",", ":")) + "\n")

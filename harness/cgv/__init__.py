"""Harness binding the TLA+ specification in /verif/spec to the circuitgraph code in /repo."""

"""Orchestration of one check:  MC configs -> TLC families -> drive the real code under several hash
seeds -> judge the recorded events with TLC -> negative controls -> known findings -> evidence."""
import argparse
import hashlib
import importlib
import json
import os
import random
import re
import shutil
import subprocess
import sys
import tempfile
import time
from concurrent.futures import ThreadPoolExecutor

from . import tlc

ROOT = os.path.dirname(os.path.dirname(os.path.dirname(os.path.abspath(__file__))))
HARNESS = os.path.join(ROOT, "harness")
REPO = os.environ.get("CGV_REPO", "/repo")
PY = os.environ.get("CGV_PYTHON", "/venv/bin/python")

ASSUMPTIONS = [
    "TLC 1.8 and the CommunityModules JSON reader are trusted",
    "the projection of networkx objects to indexed circuits (harness/cgv/proj.py) is trusted; topological hints are re-checked by the specification",
    "python-sat is absent: a DPLL stand-in with the documented pysat interface is used (harness/shim) and every answer it gives is re-judged by TLC",
    "coverage is bounded as stated in coverage.rule; nothing is claimed about inputs outside the generated families",
]


def prop_module(pid):
    return importlib.import_module("cgv.props." + pid)


def child_env(hashseed):
    env = dict(os.environ)
    env["PYTHONHASHSEED"] = str(hashseed)
    env["PYTHONPATH"] = os.pathsep.join([os.path.join(HARNESS, "shim"), HARNESS, REPO])
    env["PATH"] = os.path.join(HARNESS, "shim", "bin") + os.pathsep + env.get("PATH", "")
    env["CG_VERIF_TRACE"] = "1"
    env["PYTHONDONTWRITEBYTECODE"] = "1"
    return env


def event_key(e):
    d = {k: v for k, v in e.items() if k not in ("id", "hashseed", "src", "case", "nontrivial", "tags", "text")}
    return hashlib.sha1(json.dumps(d, sort_keys=True).encode()).hexdigest()


def load_known():
    p = os.path.join(ROOT, "known_findings.json")
    if not os.path.exists(p):
        return []
    with open(p) as f:
        return json.load(f).get("findings", [])


def match_known(entries, pid, ev, clause):
    for k in entries:
        if k.get("property") != pid or k.get("status") != "open":
            continue
        if k.get("kind") and k["kind"] != ev.get("kind"):
            continue
        if not re.fullmatch(k.get("clause", ".*"), clause):
            continue
        tags = set(ev.get("tags", []))
        if k.get("tags_all") and not set(k["tags_all"]) <= tags:
            continue
        return k
    return None


def drive_parallel(pid, tier, seed, hashseeds, scratch, extra_env=None):
    procs = []
    for h in hashseeds:
        out = os.path.join(scratch, "events_%s_h%d.ndjson" % (pid, h))
        env = child_env(h)
        env.update(extra_env or {})
        cmd = [PY, "-m", "cgv.drive", pid, "--tier", tier, "--seed", str(seed), "--hashseed", str(h),
               "--scratch", scratch, "--out", out, "--slice", "%d/%d" % (hashseeds.index(h), len(hashseeds))]
        procs.append((h, out, subprocess.Popen(cmd, cwd=HARNESS, env=env, stdout=subprocess.PIPE,
                                               stderr=subprocess.STDOUT, text=True)))
    events = []
    stats = {}
    for h, out, p in procs:
        log, _ = p.communicate()
        if p.returncode != 0:
            raise tlc.MachineryError("driver for %s (hashseed %d) failed rc=%s:\n%s" % (pid, h, p.returncode, log[-4000:]))
        with open(out) as f:
            for line in f:
                if line.strip():
                    events.append(json.loads(line))
        if os.path.exists(out + ".stats.json"):
            for k, v in json.load(open(out + ".stats.json")).items():
                stats[k] = stats.get(k, 0) + v
    return events, stats


def run_check(pid, tier, seed, replay=None, write_evidence=True):
    t0 = time.time()
    mod = prop_module(pid)
    scratch = tempfile.mkdtemp(prefix="cgv_%s_" % pid)
    lines = []
    rc = 0
    try:
        cfg = mod.config(tier)
        # ---- 1. model checking of the as-built / intended models (in background threads)
        mc_jobs = [] if replay else cfg.get("mc", [])
        ex = ThreadPoolExecutor(max_workers=max(1, len(mc_jobs)))
        mc_futs = [(j, ex.submit(tlc.mc, j["module"], j["cfg"], j.get("workers", 4), j.get("timeout", 900),
                                 tuple(j.get("extra", ())), j.get("env"))) for j in mc_jobs]
        # ---- 2. TLC-generated families (cached in scratch; generated before the drivers start)
        for fam in cfg.get("families", []):
            from . import gen
            gen.family(fam, scratch)
        emit_report = []
        for j in ([] if replay else cfg.get("emit", [])):
            out = os.path.join(scratch, "emit_%s.ndjson" % j["name"])
            r = tlc.emit(j["module"], j["cfg"], out, env=j.get("env"), workers=j.get("workers", 8), timeout=j.get("timeout", 900), scratch=scratch, seed=seed)
            emit_report.append({"name": j["name"], "module": j["module"], "cfg": j["cfg"], "transitions_emitted": r["lines"],
                                "bad_lines": r["bad_lines"], "distinct": r["distinct"], "generated": r["generated"], "wall_s": round(r["wall"], 1)})
        # ---- 3. drive the real code
        if replay:
            with open(replay) as f:
                rp = json.load(f)
            case_file = os.path.join(scratch, "replay_case.json")
            with open(case_file, "w") as f:
                json.dump(rp["case"], f)
            events, dstats = drive_parallel(pid, tier, seed, [rp["hashseed"]], scratch, {"CGV_REPLAY_CASE": case_file})
        else:
            events, dstats = drive_parallel(pid, tier, seed, cfg["hashseeds"], scratch)
        # ---- 4. unique events, negative controls
        uniq = {}
        for e in events:
            uniq.setdefault(event_key(e), e)
        uevents = list(uniq.values())
        rng = random.Random(seed)
        ctl = []
        if hasattr(mod, "negctl") and not replay:
            cands = [e for e in uevents if e.get("nontrivial") and e.get("kind") != "driver_exception" and not (e.get("kind") == "graph" and e.get("exc"))]
            rng.shuffle(cands)
            for e in cands:
                if len(ctl) >= cfg.get("negctl", 12):
                    break
                for c in mod.negctl(e, rng):
                    c = dict(c)
                    c["id"] = -(len(ctl) + 1)
                    c["negctl_of"] = e["id"]
                    ctl.append(c)
        # ---- 5. judge with TLC
        verdicts, jstats = tlc.judge(uevents + ctl, shards=cfg.get("shards", 8), timeout=cfg.get("judge_timeout", 1500),
                                     scratch=scratch)
        # ---- 6. MC results
        states = jstats["distinct"] + sum(r["distinct"] for r in emit_report)
        transitions = jstats["generated"] + sum(r["generated"] for r in emit_report)
        mc_report = []
        for j, fut in mc_futs:
            r = fut.result()
            states += r["distinct"]
            transitions += r["generated"]
            rep = {"module": j["module"], "cfg": j["cfg"], "distinct": r["distinct"], "generated": r["generated"],
                   "wall_s": round(r["wall"], 1), "ok": r["ok"], "expect": j.get("expect", "ok")}
            mc_report.append(rep)
            if j.get("expect", "ok") == "ok" and not r["ok"]:
                if r["violated"]:
                    # an intended property fails on the model of the code: reported by the model, decided on the code
                    lines.append("MODEL-COUNTEREXAMPLE property=%s model=%s/%s %s" % (pid, j["module"], j["cfg"], r["violated"][:1]))
                    rep["counterexample"] = "\n".join(r["out"].splitlines()[-60:])
                    if j.get("blocking", True):
                        rc = max(rc, 2)
                        lines.append("MACHINERY: model %s/%s was expected to satisfy its properties" % (j["module"], j["cfg"]))
                else:
                    rc = max(rc, 2)
                    lines.append("MACHINERY: TLC failed on %s/%s:\n%s" % (j["module"], j["cfg"], "\n".join(r["out"].splitlines()[-25:])))
            if j.get("expect") == "violation" and not r["violated"]:      # a TLC failure is not the expected counterexample
                rc = max(rc, 2)
                lines.append("MACHINERY: model %s/%s was expected to exhibit a counterexample" % (j["module"], j["cfg"]))
        # ---- 7. classify
        known = load_known()
        byid = {e["id"]: e for e in uevents}
        viol = []
        known_hit = {}
        drift = 0
        drift_by = {}
        ctl_accepted = [c for c in ctl if not [f for f in verdicts.get(c["id"], []) if not f.startswith("DRIFT:")]]
        for eid, failed in verdicts.items():
            if eid < 0:
                continue
            ev = byid[eid]
            mach = [f for f in failed if f.startswith("MACHINERY:")]
            if mach:
                rc = max(rc, 2)
                lines.append("MACHINERY: event %s unusable: %s" % (eid, mach))
                continue
            dr = [f for f in failed if f.startswith("DRIFT:")]
            if dr:
                drift += 1
                for f in dr:
                    drift_by[f] = drift_by.get(f, 0) + 1
                if drift <= 5:
                    os.makedirs(os.path.join(ROOT, "replays", pid), exist_ok=True)
                    dpath = os.path.join(ROOT, "replays", pid, "drift_%s_%s.json" % (ev.get("kind"), event_key(ev)[:10]))
                    with open(dpath, "w") as f:
                        json.dump({"property": pid, "hashseed": ev.get("hashseed", 0), "case": ev.get("case"), "failed": dr, "event": ev}, f, indent=1)
                    lines.append("MODEL-DRIFT property=%s event=%s %s (the code differs from the as-built model; not a violation) see %s" % (pid, eid, dr[:3], dpath))
            failed = [f for f in failed if not f.startswith("DRIFT:")]
            unlisted = []
            for cl in failed:
                k = match_known(known, pid, ev, cl)
                if k:
                    known_hit.setdefault(k["id"], [k, 0])[1] += 1
                else:
                    unlisted.append(cl)
            if unlisted:
                viol.append((ev, unlisted))
        for f, cnt in sorted(drift_by.items()):
            lines.append("MODEL-DRIFT-SUMMARY property=%s %s in %d event(s)" % (pid, f, cnt))
        for kid, (k, cnt) in sorted(known_hit.items()):
            lines.append("KNOWN-FINDING: property=%s %s [%s; %d event(s) this run]" % (pid, k["what"], kid, cnt))
        os.makedirs(os.path.join(ROOT, "replays", pid), exist_ok=True)
        shown = 0
        sigs = {}
        for ev, cls in viol:
            sig = (ev.get("kind"), tuple(sorted(c.split(":")[0] for c in cls)))
            sigs[sig] = sigs.get(sig, 0) + 1
            if sigs[sig] > 3 or shown >= 12:
                continue
            shown += 1
            path = os.path.join(ROOT, "replays", pid, "%s_%s.json" % (ev.get("kind"), event_key(ev)[:10]))
            with open(path, "w") as f:
                json.dump({"property": pid, "hashseed": ev.get("hashseed", 0), "case": ev.get("case"), "failed": cls,
                           "event": ev}, f, indent=1)
            lines.append("VIOLATION property=%s replay=%s clauses=%s" % (pid, path, ",".join(cls)[:300]))
        # negative controls are corrupted copies of REAL events: they are meaningful only when the real events themselves
        # satisfy the relation.  With violations present the verdict is "violation" (exit 1); an accepted control on an
        # otherwise clean run means the judge is too weak: machinery failure (exit 2).
        for c in ctl_accepted:
            if viol:
                lines.append("NOTE: negative control accepted while the run has violations (corruption %s of event %s)" % (c.get("corruption"), c["negctl_of"]))
            else:
                rc = max(rc, 2)
                lines.append("MACHINERY: negative control accepted (corruption %s of event %s)" % (c.get("corruption"), c["negctl_of"]))
        if viol:
            rc = max(rc, 1) if rc != 2 else 2
            if len(viol) > shown:
                lines.append("(%d violating events in total; %d shown)" % (len(viol), shown))
        # ---- 8. evidence
        nontriv = {event_key(e) for e in uevents if e.get("nontrivial")}
        samples = []
        for e in uevents[:: max(1, len(uevents) // 3)][:3]:
            s = json.dumps(e)
            samples.append(e if len(s) < 3000 else {"id": e["id"], "kind": e["kind"], "src": e.get("src"), "truncated": s[:2500]})
        ev = {
            "property_id": pid,
            "tier": tier,
            "seed": seed,
            "level": mod.LEVEL,
            "coverage": {
                "states": states,
                "transitions": transitions,
                "traces_validated_against_impl": len(uevents) + int(dstats.get("transitions_replayed", 0)),
                "evaluations": len(events) + sum(r["distinct"] for r in mc_report) + int(dstats.get("transitions_replayed", 0)),
                "spec_to_code_replay": {"emitted": emit_report, "driver_stats": dstats},
                "distinct_nontrivial": len(nontriv),
                "rule": mod.RULE,
                "samples": samples or [{"note": "no events"}],
                "exhaustive": bool(cfg.get("exhaustive", False)),
                "exhaustive_families": cfg.get("families", []),
                "events_recorded_total": len(events),
                "events_distinct": len(uevents),
                "hashseeds": cfg["hashseeds"] if not replay else [],
                "negative_controls": len(ctl),
                "negative_controls_rejected": sum(1 for c in ctl if verdicts.get(c["id"])),
                "model_checking": mc_report,
                "kinds": _count(uevents, "kind"),
                "sources": _count(uevents, "src"),
                "judge": {k: (round(v, 1) if isinstance(v, float) else v) for k, v in jstats.items()},
                "known_findings_seen": sorted(known_hit),
                "model_drift_events": drift,
            },
            "assumptions": ASSUMPTIONS + getattr(mod, "ASSUMPTIONS", []),
            "wall_s": round(time.time() - t0, 1),
            "violations": len(viol),
        }
        if not replay and write_evidence:
            os.makedirs(os.path.join(ROOT, "evidence"), exist_ok=True)
            with open(os.path.join(ROOT, "evidence", pid + ".json"), "w") as f:
                json.dump(ev, f, indent=1)
        lines.append("%s %s: %d events (%d distinct, %d non-trivial) judged by TLC, %d MC configs, %d states, %d violations, %.0fs"
                     % (pid, tier, len(events), len(uevents), len(nontriv), len(mc_report), states, len(viol), time.time() - t0))
    except tlc.MachineryError as e:
        lines.append("MACHINERY: %s" % e)
        rc = 2
    finally:
        shutil.rmtree(scratch, ignore_errors=True)
    print("\n".join(lines))
    return rc


def _count(evs, key):
    d = {}
    for e in evs:
        k = str(e.get(key))
        k = k.split(":")[0]
        d[k] = d.get(k, 0) + 1
    return d


def main(argv=None):
    ap = argparse.ArgumentParser()
    ap.add_argument("prop")
    ap.add_argument("--tier", default=os.environ.get("VERIF_TIER", "quick"), choices=["quick", "thorough"])
    ap.add_argument("--seed", type=int, default=int(os.environ.get("VERIF_SEED", "0") or 0))
    ap.add_argument("--replay", default=None)
    ap.add_argument("--no-evidence", action="store_true", help="do not rewrite evidence/<id>.json (used when trying seeded changes)")
    a = ap.parse_args(argv)
    sys.exit(run_check(a.prop, a.tier, a.seed, a.replay, not a.no_evidence))


if __name__ == "__main__":
    main()

"""Driver process: runs one property's cases against the real code under one PYTHONHASHSEED and records
one event per call.  Started by runner.py with PYTHONPATH = shim : harness : /repo."""
import argparse
import json
import os
import sys
import traceback


class Ctx:
    def __init__(self, tier, seed, hashseed, scratch):
        self.tier = tier
        self.seed = seed
        self.hashseed = hashseed
        self.scratch = scratch
        self.quick = tier == "quick"
        self.stats = {}
        self.slice = (0, 1)

    def emitted(self, name):
        """Transitions emitted by TLC (one JSON object per line) that belong to this driver's slice."""
        import json as _json

        path = os.path.join(self.scratch, "emit_%s.ndjson" % name)
        if not os.path.exists(path):
            return
        k, n = self.slice
        with open(path) as f:
            for i, line in enumerate(f):
                if i % n == k:
                    yield _json.loads(line)

    def count(self, key, inc=1):
        self.stats[key] = self.stats.get(key, 0) + inc

    def family(self, name):
        from . import gen

        return gen.family(name, self.scratch)

    def rng(self, *salt):
        from . import gen

        return gen.rng_for(self.seed, *salt)


def main():
    ap = argparse.ArgumentParser()
    ap.add_argument("prop")
    ap.add_argument("--tier", default="quick")
    ap.add_argument("--seed", type=int, default=0)
    ap.add_argument("--hashseed", type=int, default=0)
    ap.add_argument("--scratch", required=True)
    ap.add_argument("--out", required=True)
    ap.add_argument("--slice", default="0/1")
    a = ap.parse_args()
    assert os.environ.get("PYTHONHASHSEED") == str(a.hashseed), "driver must run under the requested hash seed"
    import importlib

    mod = importlib.import_module("cgv.props." + a.prop)
    ctx = Ctx(a.tier, a.seed, a.hashseed, a.scratch)
    ctx.slice = tuple(int(x) for x in a.slice.split("/"))
    n = 0
    replay = os.environ.get("CGV_REPLAY_CASE")
    if replay:
        with open(replay) as f:
            cases = [json.load(f)]
    else:
        cases = mod.cases(ctx)
    with open(a.out, "w") as out:
        for kk, case in enumerate(cases):
            # every other case builds its circuits with a shuffled node insertion order (graph iteration order)
            if not replay and isinstance(case, dict):
                case.setdefault("ord", kk if kk % 2 else None)
            try:
                evs = mod.run_case(case, ctx)
            except Exception as ex:
                # An exception nobody expected.  If it was raised INSIDE the library (some frame of the traceback is in the
                # circuitgraph package) on an input the property speaks about, that is a verdict about the code: it is
                # recorded as an event and judged (clause unexpected_exception).  Raised in the harness itself: machinery.
                tb = traceback.extract_tb(ex.__traceback__)
                lib = [f for f in tb if os.sep + "circuitgraph" + os.sep in f.filename]
                if not lib:
                    sys.stderr.write("driver error on case %s\n" % json.dumps(case)[:2000])
                    traceback.print_exc()
                    sys.exit(3)
                evs = [{"kind": "driver_exception", "exc": type(ex).__name__,
                        "where": "%s:%s" % (os.path.basename(lib[-1].filename), lib[-1].name), "nontrivial": True}]
            if isinstance(evs, dict):
                evs = [evs]
            for e in evs:
                n += 1
                e["id"] = a.hashseed * 10000000 + n
                e["hashseed"] = a.hashseed
                e.setdefault("src", case.get("src", "?"))
                e["case"] = case
                out.write(json.dumps(e, separators=(",", ":")) + "\n")
    with open(a.out + ".stats.json", "w") as f:
        json.dump(ctx.stats, f)
    print("recorded %d events" % n)


if __name__ == "__main__":
    main()

import sys


class _DPLL:
    def __init__(self, bootstrap_with=None, **kwargs):
        self.clauses = []
        self.nv = 0
        self.model = None
        self.status = None
        if bootstrap_with is not None:
            for c in bootstrap_with:
                self.add_clause(c)

    def add_clause(self, clause, no_return=True):
        clause = [int(l) for l in clause]
        for l in clause:
            if abs(l) > self.nv:
                self.nv = abs(l)
        self.clauses.append(clause)

    def append_formula(self, formula, no_return=True):
        for c in formula:
            self.add_clause(c)

    def solve(self, assumptions=()):
        sys.setrecursionlimit(max(10000, sys.getrecursionlimit()))
        assign = {}
        clauses = self.clauses + [[int(a)] for a in assumptions]
        res = self._search(clauses, assign)
        if res is None:
            self.model = None
            self.status = False
            return False
        self.model = [v if res.get(v, False) else -v for v in range(1, self.nv + 1)]
        self.status = True
        return True

    @staticmethod
    def _simplify(clauses, assign):
        """Unit propagation.  Returns (clauses, assign) or None on conflict."""
        assign = dict(assign)
        while True:
            unit = None
            out = []
            for c in clauses:
                sat = False
                rest = []
                for l in c:
                    v = assign.get(abs(l))
                    if v is None:
                        rest.append(l)
                    elif v == (l > 0):
                        sat = True
                        break
                if sat:
                    continue
                if not rest:
                    return None
                if len(rest) == 1 and unit is None:
                    unit = rest[0]
                out.append(rest)
            if unit is None:
                return out, assign
            assign[abs(unit)] = unit > 0
            clauses = out

    def _search(self, clauses, assign):
        r = self._simplify(clauses, assign)
        if r is None:
            return None
        clauses, assign = r
        if not clauses:
            return assign
        # branch on a literal of a shortest clause
        c = min(clauses, key=len)
        l = c[0]
        for val in (l > 0, not (l > 0)):
            a = dict(assign)
            a[abs(l)] = val
            res = self._search(clauses, a)
            if res is not None:
                return res
        return None

    def get_model(self):
        return list(self.model) if self.model is not None else None

    def get_status(self):
        return self.status

    def delete(self):
        self.clauses = []

    def __enter__(self):
        return self

    def __exit__(self, *a):
        self.delete()


class Cadical153(_DPLL):
    pass


class Cadical(_DPLL):
    pass


class Glucose3(_DPLL):
    pass


class Solver(_DPLL):
    def __init__(self, name="cd", bootstrap_with=None, **kwargs):
        super().__init__(bootstrap_with=bootstrap_with)

import sys


class _DPLL:
    def __init__(self, bootstrap_with=None, **kwargs):
        self.clauses = []
        self._masks = []
        self._occ = {}
        self.nv = 0
        self.model = None
        self.status = None
        if bootstrap_with is not None:
            for c in bootstrap_with:
                self.add_clause(c)

    def add_clause(self, clause, no_return=True):
        clause = [int(l) for l in clause]
        for l in clause:
            if abs(l) > self.nv:
                self.nv = abs(l)
        self.clauses.append(clause)
        p = n = 0
        for l in clause:
            if l > 0:
                p |= 1 << l
            else:
                n |= 1 << (-l)
            self._occ[abs(l)] = self._occ.get(abs(l), 0) + 1
        self._masks.append((p, n))

    def append_formula(self, formula, no_return=True):
        for c in formula:
            self.add_clause(c)

    def solve(self, assumptions=()):
        sys.setrecursionlimit(max(10000, sys.getrecursionlimit()))
        masks = list(self._masks)
        for a in assumptions:
            a = int(a)
            masks.append((1 << a, 0) if a > 0 else (0, 1 << (-a)))
        # static branching order: most frequently occurring variables first (blocking clauses added by an
        # enumeration loop make the blocked variables the first to be decided, which keeps the search shallow)
        occ = self._occ
        self._order = [1 << v for v in sorted(occ, key=lambda v: (-occ[v], v))]
        res = self._search(masks, 0, 0)
        if res is None:
            self.model = None
            self.status = False
            return False
        t = res[0]
        self.model = [v if (t >> v) & 1 else -v for v in range(1, self.nv + 1)]
        self.status = True
        return True

    def _search(self, masks, t, f):
        """DPLL on bit masks: t / f = sets of variables assigned true / false."""
        while True:
            changed = False
            branch = False
            rem = 0
            for p, n in masks:
                if p & t or n & f:
                    continue
                up = p & ~f
                un = n & ~t
                if not up and not un:
                    return None
                if not un and not (up & (up - 1)):
                    t |= up
                    changed = True
                elif not up and not (un & (un - 1)):
                    f |= un
                    changed = True
                else:
                    branch = True
                    rem |= up | un
            if not changed:
                break
        if not branch:
            return t, f
        for bit in self._order:
            if bit & rem and not (bit & (t | f)):
                break
        for tt, ff in ((t, f | bit), (t | bit, f)):
            res = self._search(masks, tt, ff)
            if res is not None:
                return res
        return None

    def get_model(self):
        return list(self.model) if self.model is not None else None

    def get_status(self):
        return self.status

    def delete(self):
        self.clauses = []

    def __enter__(self):
        return self

    def __exit__(self, *a):
        self.delete()


class Cadical153(_DPLL):
    pass


class Cadical(_DPLL):
    pass


class Glucose3(_DPLL):
    pass


class Solver(_DPLL):
    def __init__(self, name="cd", bootstrap_with=None, **kwargs):
        super().__init__(bootstrap_with=bootstrap_with)

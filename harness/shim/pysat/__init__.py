"""Stand-in for the `python-sat` package, which is not installed in this sandbox.

Only the interface circuitgraph uses is provided (pysat.formula.CNF / IDPool, pysat.solvers.Cadical153 /
Cadical): same observable behaviour as documented for PySAT 0.1.x.  The solver is a plain DPLL; its answers
are never trusted by the verification: every SAT/UNSAT answer that reaches a check is re-judged by TLC.
"""
__version__ = "0.0-cgv-shim"

class IDPool:
    """Manager of variable ids: objects get consecutive ids from start_from (default 1)."""

    def __init__(self, start_from=1, occupied=None):
        self.top = start_from - 1
        self.obj2id = {}
        self.id2obj = {}

    def id(self, obj=None):
        if obj is None:
            self.top += 1
            return self.top
        v = self.obj2id.get(obj)
        if v is None:
            self.top += 1
            v = self.top
            self.obj2id[obj] = v
            self.id2obj[v] = obj
        return v

    def obj(self, vid):
        return self.id2obj.get(vid)


class CNF:
    def __init__(self, from_clauses=None):
        self.nv = 0
        self.clauses = []
        self.comments = []
        if from_clauses:
            for c in from_clauses:
                self.append(c)

    def append(self, clause):
        clause = list(clause)
        self.nv = max([abs(l) for l in clause] + [self.nv])
        self.clauses.append(clause)

    def extend(self, clauses):
        for c in clauses:
            self.append(c)

    def __iter__(self):
        return iter(self.clauses)

    def __len__(self):
        return len(self.clauses)

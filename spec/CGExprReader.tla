----------------------------- MODULE CGExprReader -----------------------------
(***************************************************************************)
(* As-built model of the full Verilog reader (parsing/verilog.py, the Lark *)
(* transformer) on the abstract syntax of CGNetlist, INCLUDING expressions *)
(* and the names of the gates it invents for them.  The transformer is a   *)
(* sequential machine over the statements in TEXT order:                   *)
(*   state   = circuit under construction, the set gate_expressions, the   *)
(*             names of the three shared constants;                        *)
(*   reserved= every identifier of the text (names of invented nodes avoid *)
(*             them: uid(name, blocked = reserved));                       *)
(*   ~e      -> not_<e>;  e1 op e2 -> and_/or_/xor_/xnor_<e1>_<e2>;        *)
(*   c?a:b   -> mux_n_, mux_a0_, mux_a1_, mux_o_<c>_<a>_<b>;               *)
(*   a repeated operand of a parity gate goes through <net>_dup;           *)
(*   assign l = e : if e's value is an invented gate, that gate is RENAMED *)
(*             l (merging with a placeholder l that was used earlier),     *)
(*             else l = buf(e);                                            *)
(*   nets used before they are defined are placeholders (buf) until their  *)
(*   definition overwrites the type;                                       *)
(*   at the end: output marks, unused constants removed.                   *)
(* MCExprReader checks that the circuit this machine builds DENOTES the    *)
(* program (C02 inside the model) for every small program of a family and  *)
(* every statement order; with reserved = {} it reproduces the repaired    *)
(* name-capture defect.  JudgeEvent reports drift when the circuit the     *)
(* real reader built is not the machine's.                                 *)
(***************************************************************************)
EXTENDS CGVerilogIO

RECURSIVE UidBFrom(_,_,_,_)
UidBFrom(st, n, R, j) == IF j > MaxUidTries THEN n \o "_overflow"
                         ELSE LET cand == n \o "_" \o UidSuffix(j) IN
                              IF cand \in st.nodes \/ cand \in R THEN UidBFrom(st, n, R, j + 1) ELSE cand
UidB(st, n, R) == IF n \notin st.nodes /\ n \notin R THEN n ELSE UidBFrom(st, n, R, 1)

\* add_node(n, t, fanin) of the transformer: overwrite type (output mark cleared), placeholders for unknown fan-in, edges added
AddP(st, n, t, fanin) ==
  LET s1 == AddNode(st, n, t, FALSE)
      new == {f \in Range(fanin) : f \notin s1.nodes}
      N == s1.nodes \cup new
  IN [s1 EXCEPT !.nodes = N,
                !.ty  = [x \in N |-> IF x \in new THEN "buf" ELSE s1.ty[x]],
                !.out = [x \in N |-> IF x \in new THEN FALSE ELSE s1.out[x]],
                !.edges = s1.edges \cup {<<f, n>> : f \in Range(fanin)}]
\* networkx relabel_nodes(copy=False) of one node: the target takes the source's attributes, keeps its own edges too
RelabelInto(st, old, new) ==
  IF old = new THEN st ELSE
  LET N == (st.nodes \ {old}) \cup {new}
      r(x) == IF x = old THEN new ELSE x
  IN [st EXCEPT !.nodes = N,
                !.ty  = [x \in N |-> IF x = new THEN st.ty[old] ELSE st.ty[x]],
                !.out = [x \in N |-> IF x = new THEN st.out[old] ELSE st.out[x]],
                !.edges = {<<r(e[1]), r(e[2])>> : e \in st.edges}]

\* ps = [st, ge, t0, t1, tx]
NewGate(ps, base, t, fanin, R) ==
  LET nm == UidB(ps.st, base, R) IN [ps |-> [ps EXCEPT !.st = AddP(ps.st, nm, t, fanin)], nm |-> nm]
\* distinct_operands for two operands
Distinct2(ps, a, b, R) ==
  IF a # b THEN [ps |-> ps, ops |-> <<a, b>>]
  ELSE LET g == NewGate(ps, b \o "_dup", "buf", <<b>>, R) IN [ps |-> g.ps, ops |-> <<a, g.nm>>]
RECURSIVE EvalX(_,_,_,_,_)
EvalX(ps, ex, i, stack, R) ==
  IF i > Len(ex) THEN [ps |-> ps, nm |-> stack[Len(stack)]]
  ELSE LET tok == ex[i]  n == Len(stack) IN
    IF IsId(tok) THEN EvalX(ps, ex, i + 1, Append(stack, IdOf(tok)), R)
    ELSE IF tok = "0" THEN EvalX(ps, ex, i + 1, Append(stack, ps.t0), R)
    ELSE IF tok = "1" THEN EvalX(ps, ex, i + 1, Append(stack, ps.t1), R)
    ELSE IF tok = "x" THEN EvalX(ps, ex, i + 1, Append(stack, ps.tx), R)
    ELSE IF tok = "~" THEN
         LET a == stack[n]
             g == NewGate(ps, "not_" \o a, "not", <<a>>, R)
         IN EvalX([g.ps EXCEPT !.ge = @ \cup {g.nm}], ex, i + 1, Append(SubSeq(stack, 1, n - 1), g.nm), R)
    ELSE IF tok = "?:" THEN
         LET s == stack[n - 2]  a == stack[n - 1]  b == stack[n]
             io == s \o "_" \o a \o "_" \o b
             g1 == NewGate(ps, "mux_n_" \o io, "not", <<s>>, R)
             g2 == NewGate(g1.ps, "mux_a0_" \o io, "and", <<g1.nm, b>>, R)
             g3 == NewGate(g2.ps, "mux_a1_" \o io, "and", <<s, a>>, R)
             g4 == NewGate(g3.ps, "mux_o_" \o io, "or", <<g2.nm, g3.nm>>, R)
         IN EvalX([g4.ps EXCEPT !.ge = @ \cup {g4.nm}], ex, i + 1, Append(SubSeq(stack, 1, n - 3), g4.nm), R)
    ELSE LET a == stack[n - 1]  b == stack[n]
             t == CASE tok = "&" -> "and" [] tok = "|" -> "or" [] tok = "^" -> "xor" [] tok = "~^" -> "xnor"
             d == IF t \in {"xor", "xnor"} THEN Distinct2(ps, a, b, R) ELSE [ps |-> ps, ops |-> <<a, b>>]
             g == NewGate(d.ps, t \o "_" \o a \o "_" \o b, t, d.ops, R)
         IN EvalX([g.ps EXCEPT !.ge = @ \cup {g.nm}], ex, i + 1, Append(SubSeq(stack, 1, n - 2), g.nm), R)
Ex(ps, ex, R) == EvalX(ps, ex, 1, <<>>, R)
\* evaluate a sequence of expressions left to right
RECURSIVE ExSeq(_,_,_,_,_)
ExSeq(ps, exs, i, acc, R) == IF i > Len(exs) THEN [ps |-> ps, nms |-> acc]
                             ELSE LET r == Ex(ps, exs[i], R) IN ExSeq(r.ps, exs, i + 1, Append(acc, r.nm), R)
\* distinct_operands for a list
RECURSIVE DistinctN(_,_,_,_,_)
DistinctN(ps, ops, i, acc, R) ==
  IF i > Len(ops) THEN [ps |-> ps, ops |-> acc]
  ELSE IF ops[i] \in Range(acc) THEN LET g == NewGate(ps, ops[i] \o "_dup", "buf", <<ops[i]>>, R) IN DistinctN(g.ps, ops, i + 1, Append(acc, g.nm), R)
  ELSE DistinctN(ps, ops, i + 1, Append(acc, ops[i]), R)

DoGate(ps, it, R) ==
  LET r == ExSeq(ps, it.ins, 1, <<>>, R)
      d == IF it.t \in {"xor", "xnor"} THEN DistinctN(r.ps, r.nms, 1, <<>>, R) ELSE [ps |-> r.ps, ops |-> r.nms]
  IN [d.ps EXCEPT !.st = AddP(d.ps.st, it.out, it.t, d.ops)]
DoAssign(ps, it, R) ==
  LET r == Ex(ps, it.rhs, R) IN
  IF it.lhs \in {ps.t0, ps.t1, ps.tx} THEN r.ps
  ELSE IF r.nm \in r.ps.ge THEN [r.ps EXCEPT !.st = RelabelInto(r.ps.st, r.nm, it.lhs), !.ge = @ \ {r.nm}]
  ELSE [r.ps EXCEPT !.st = AddP(r.ps.st, it.lhs, "buf", <<r.nm>>)]
DoBB(ps, it, bt, R) ==
  LET connected == SelectSeq(it.conns, LAMBDA cn : Len(cn[2]) > 0)
      r == ExSeq(ps, [q \in 1..Len(connected) |-> connected[q][2]], 1, <<>>, R)
      outNets == {r.nms[q] : q \in {x \in 1..Len(connected) : connected[x][1] \in Range(bt.outs)}}
      RECURSIVE Bufs(_,_)
      Bufs(st, S) == IF S = {} THEN st ELSE LET x == CHOOSE y \in S : TRUE IN Bufs(AddP(st, x, "buf", <<>>), S \ {x})
      s1 == Bufs(r.ps.st, outNets)
      missing == {r.nms[q] : q \in 1..Len(connected)} \ s1.nodes
      s2 == Bufs(s1, missing)
      res == AddBlackboxRes(s2, [type |-> it.type, ins |-> Range(bt.ins), outs |-> Range(bt.outs)], it.inst, bt.ins, bt.outs,
                            [q \in 1..Len(connected) |-> <<connected[q][1], <<r.nms[q]>>>>])
  IN [r.ps EXCEPT !.st = res.st]
RECURSIVE RunItems(_,_,_,_,_)
RunItems(ps, p, order, i, R) ==
  IF i > Len(order) THEN ps
  ELSE LET it == p.items[order[i]] IN
       RunItems(CASE it.k = "gate" -> DoGate(ps, it, R)
                  [] it.k = "assign" -> DoAssign(ps, it, R)
                  [] it.k = "bb" -> DoBB(ps, it, BBTypeOf(p, it.type), R), p, order, i + 1, R)
\* order : the item indices in text order;  R : the identifiers of the text
ExprReaderModel(p, order, R) ==
  LET t0 == UidB(EmptySt, "tie_0", R)
      s0 == AddNode(EmptySt, t0, "0", FALSE)
      t1 == UidB(s0, "tie_1", R)
      s1 == AddNode(s0, t1, "1", FALSE)
      tx == UidB(s1, "tie_x", R)
      s2 == AddNode(s1, tx, "x", FALSE)
      RECURSIVE Ins(_,_)
      Ins(st, j) == IF j > Len(p.inputs) THEN st ELSE Ins(AddP(st, p.inputs[j], "input", <<>>), j + 1)
      ps == RunItems([st |-> Ins(s2, 1), ge |-> {}, t0 |-> t0, t1 |-> t1, tx |-> tx], p, order, 1, R)
      st3 == [ps.st EXCEPT !.out = [x \in ps.st.nodes |-> x \in Range(p.outputs)]]
      unused == {t \in {t0, t1, tx} : FanOut(st3, t) = {}}
  IN RemoveNodes(st3, unused)
\* identifiers of the program as the text spells them (keywords, gate type names, instance names are added by the harness)
ProgramIdents(p) == ProgNets(p) \cup UNION {ExprNets(p.items[j].rhs) : j \in {x \in 1..Len(p.items) : p.items[x].k = "assign"}}
                    \cup UNION {UNION {ExprNets(p.items[j].ins[q]) : q \in 1..Len(p.items[j].ins)} : j \in {x \in 1..Len(p.items) : p.items[x].k = "gate"}}
\* drift: the circuit the real reader built against the machine's (programs with one driver per net; text order and identifiers from the harness)
ExprModelApplies(p) ==
  /\ Cardinality(DrivenNets(p)) = Cardinality({j \in 1..Len(p.items) : p.items[j].k \in {"gate", "assign"}})
  /\ DrivenNets(p) \cap FreeNets(p) = {}
  /\ Range(p.outputs) \subseteq DrivenNets(p) \cup FreeNets(p)
  /\ Len(p.items) <= 8
DriftExprParse(e) ==
  IF "order" \in DOMAIN e /\ "idents" \in DOMAIN e /\ e.dialect = "verilog" /\ ~e.expect_reject /\ e.exc = "" /\ WellFormedRec(e.r) /\ e.r.n <= 24
     /\ Len(e.order) = Len(e.p.items) /\ ExprModelApplies(e.p)
     /\ ToNamed(e.r) # ExprReaderModel(e.p, e.order, Range(e.idents))
  THEN {"DRIFT:parsed_circuit_differs_from_expression_reader_model"} ELSE {}

(* ---- the behavioural form of the writer: one assign per gate with operands (operands in index order here; the real
   writer's order is that of a Python set) ---- *)
RECURSIVE JoinOps(_,_,_,_)
JoinOps(c, fi, q, op) == IF q > Len(fi) THEN <<>> ELSE <<"$" \o c.names[fi[q]]>> \o (IF q = 1 THEN <<>> ELSE <<op>>) \o JoinOps(c, fi, q + 1, op)
BehItem(c, i) ==
  LET t == c.ty[i]  fi == c.fi[i]
      op == CASE t \in {"and", "nand"} -> "&" [] t \in {"or", "nor"} -> "|" [] t \in {"xor", "xnor"} -> "^" [] OTHER -> ""
  IN IF t \in Consts THEN << [k |-> "assign", lhs |-> c.names[i], rhs |-> <<t>>] >>
     ELSE IF t \notin Gates \/ Len(fi) = 0 \/ (i \in BBLoads(c) /\ \A j \in Range(fi) : c.ty[j] = "bb_output") THEN <<>>
     ELSE IF t = "buf" THEN << [k |-> "assign", lhs |-> c.names[i], rhs |-> <<"$" \o c.names[fi[1]]>>] >>
     ELSE IF t = "not" THEN << [k |-> "assign", lhs |-> c.names[i], rhs |-> <<"$" \o c.names[fi[1]], "~">>] >>
     ELSE << [k |-> "assign", lhs |-> c.names[i], rhs |-> JoinOps(c, fi, 1, op) \o (IF t \in {"nand", "nor", "xnor"} THEN <<"~">> ELSE <<>>)] >>
WriterProgramB(c) ==
  LET RECURSIVE Items(_)
      Items(i) == IF i > c.n THEN <<>> ELSE BehItem(c, i) \o Items(i + 1)
      p == WriterProgram(c)
  IN [p EXCEPT !.items = [b \in 1..Len(c.bbs) |-> BBItem(c, b)] \o Items(1)]

(* ---- binding of the writer model to the text the real writer produced: e.wp is the abstract syntax of that text (items in
   text order, read by the harness), e.idents its identifiers.  (1) the text says what WriterProgram(c) says - compared as
   sets, the writer iterates over Python sets; behavioural form: one assign per gate with operands, `~( )` for the
   inverting types, a single operand written bare; (2) the circuit read back is what the reader machine builds from it. *)
NormItem(it) ==
  IF it.k = "gate" THEN [k |-> "g", out |-> it.out, t |-> it.t, ins |-> {it.ins[q] : q \in 1..Len(it.ins)}, n |-> Len(it.ins)]
  ELSE IF it.k = "assign" THEN
       LET ex == it.rhs
           ops == {ex[q] : q \in {x \in 1..Len(ex) : ex[x] \in {"&", "|", "^"}}}
           neg == ex[Len(ex)] = "~"
           opnds == {<<ex[q]>> : q \in {x \in 1..Len(ex) : IsId(ex[x]) \/ ex[x] \in Consts}}
           cnt == Cardinality({x \in 1..Len(ex) : IsId(ex[x]) \/ ex[x] \in Consts})
       IN IF Len(ex) = 1 /\ ex[1] \in Consts THEN [k |-> "g", out |-> it.lhs, t |-> ex[1], ins |-> {}, n |-> 0]
          ELSE [k |-> "g", out |-> it.lhs,
                t |-> CASE ops = {"&"} -> (IF neg THEN "nand" ELSE "and") [] ops = {"|"} -> (IF neg THEN "nor" ELSE "or")
                        [] ops = {"^"} -> (IF neg THEN "xnor" ELSE "xor") [] ops = {} -> (IF neg THEN "not" ELSE "buf")
                        [] OTHER -> "?",
                ins |-> opnds, n |-> cnt]
  ELSE [k |-> "b", type |-> it.type, inst |-> it.inst, conns |-> {it.conns[q] : q \in 1..Len(it.conns)}]
ExpectedItems(c, behavioral) ==
  LET p == WriterProgram(c) IN
  {LET it == p.items[j]
       n0 == NormItem(it)
   IN IF ~behavioral \/ it.k # "gate" THEN n0
      ELSE IF n0.n = 1 THEN [n0 EXCEPT !.t = IF it.t \in {"buf", "and", "or", "xor"} THEN "buf" ELSE "not"] ELSE n0
   : j \in 1..Len(p.items)}
WriterAgrees(c, wp, behavioral) ==
  /\ Range(wp.inputs) = InputNames(c) /\ Len(wp.inputs) = Cardinality(InputNames(c))
  /\ Range(wp.outputs) = OutputNames(c) /\ Len(wp.outputs) = Cardinality(OutputNames(c))
  /\ wp.ports = wp.inputs \o wp.outputs
  /\ Range(wp.wires) = NamesOf(c, OfType(c, Gates \cup Consts)) /\ Len(wp.wires) = Cardinality(OfType(c, Gates \cup Consts))
  /\ {NormItem(wp.items[j]) : j \in 1..Len(wp.items)} = ExpectedItems(c, behavioral)
  /\ Len(wp.items) = Cardinality(ExpectedItems(c, behavioral))
DriftWriter(e) ==
  IF "wp" \in DOMAIN e /\ e.exc = "" /\ WellFormedRec(e.c) /\ WellFormedRec(e.c2) /\ e.c.n <= 16 /\ NoTieNames(NameSet(e.c))
  THEN (IF WriterAgrees(e.c, e.wp, e.behavioral) THEN {} ELSE {"DRIFT:written_text_differs_from_writer_model"})
       \cup (IF ExprModelApplies(e.wp) /\ ToNamed(e.c2) # ExprReaderModel(e.wp, [q \in 1..Len(e.wp.items) |-> q], Range(e.idents))
             THEN {"DRIFT:circuit_read_back_differs_from_expression_reader_model"} ELSE {})
  ELSE {}
=============================================================================

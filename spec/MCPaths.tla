------------------------------ MODULE MCPaths ------------------------------
(***************************************************************************)
(* Circuit.paths(s, t, cutoff) = networkx all_simple_paths, as a machine:  *)
(* a depth-first search with an explicit stack of "children still to try"  *)
(* (the iteration order of every successor set is arbitrary), which yields *)
(* the current path whenever the child taken is the target and descends    *)
(* into a child only while the path is shorter than the cutoff.  Checked   *)
(* on every digraph on 4 labelled nodes (cyclic ones included) and every   *)
(* DAG shape on 5 nodes, every s # t, every cutoff, every visiting order:  *)
(* at termination the set of yielded paths is CGGraph!PathsWithin, nothing *)
(* is yielded twice; and the definition itself is sane (a path exists iff  *)
(* t is a descendant of s, every path is a walk without repeated nodes).   *)
(***************************************************************************)
EXTENDS CGGraph, CGFamilies

CONSTANT WithDag5
VARIABLES g, s, t, cutoff, visited, stack, yielded, dup
vars == <<g, s, t, cutoff, visited, stack, yielded, dup>>

Lim == IF cutoff = -1 THEN g.n - 1 ELSE cutoff       \* networkx: cutoff None = len(G) - 1
\* networkx 3.x _all_simple_edge_paths: `visited` is current_path without its dummy entry, the bottom of the stack is the
\* dummy iterator that yields only the source
Init == /\ g \in DG4(0) \cup (IF WithDag5 THEN DAG5(0) ELSE {})
        /\ s \in 1..g.n /\ t \in (1..g.n) \ {s}
        /\ cutoff \in {-1, 1, 2, 3}
        /\ visited = <<>>
        /\ stack = << {s} >>
        /\ yielded = {} /\ dup = FALSE
Top == stack[Len(stack)]
Cand == Top \ Range(visited)
Pop == /\ stack # <<>> /\ Cand = {}
       /\ stack' = SubSeq(stack, 1, Len(stack) - 1)
       /\ visited' = IF visited = <<>> THEN <<>> ELSE SubSeq(visited, 1, Len(visited) - 1)
       /\ UNCHANGED <<g, s, t, cutoff, yielded, dup>>
Step == /\ stack # <<>> /\ Cand # {}
        /\ \E ch \in Cand :
             LET rest == [stack EXCEPT ![Len(stack)] = Top \ {ch}]
                 np == Append(visited, ch)
             IN /\ IF ch = t THEN /\ yielded' = yielded \cup {np} /\ dup' = (dup \/ np \in yielded)
                              ELSE UNCHANGED <<yielded, dup>>
                /\ IF Len(visited) < Lim /\ t \notin Range(np)
                   THEN /\ visited' = np /\ stack' = Append(rest, FoSet(g, ch))
                   ELSE /\ stack' = rest /\ UNCHANGED visited
        /\ UNCHANGED <<g, s, t, cutoff>>
Next == Pop \/ Step
Spec == Init /\ [][Next]_vars
Done == stack = <<>>
YieldsExactlyThePaths == Done => yielded = PathsWithin(g, s, t, cutoff) /\ ~dup
NothingWrongOnTheWay  == yielded \subseteq PathsWithin(g, s, t, cutoff)
DefinitionSane ==
  (visited = <<>> /\ stack = <<{s}>>) =>
     LET P == SimplePaths(g, s, t) IN
     /\ (P # {}) = (t \in Desc(g, {s}))
     /\ \A p \in P : p[1] = s /\ p[Len(p)] = t /\ PathIsWalk(g, p) /\ Cardinality(Range(p)) = Len(p)
=============================================================================

INIT Init
NEXT Next
INVARIANT ReaderDenotes
INVARIANT NoCapture

------------------------------ MODULE JudgeSat ------------------------------
(***************************************************************************)
(* Property relations for the SAT front end (C01, C08) on recorded calls.  *)
(***************************************************************************)
EXTENDS CGSem

SatMachinery(c) == (IF WellFormedRec(c) THEN {} ELSE {"MACHINERY:malformed_record"})
                   \cup (IF c.acyc /\ ~IsTopo(c) THEN {"MACHINERY:not_topological"} ELSE {})

(* cnf(c): e.c, e.nv, e.clauses, e.vars (variable of node i) *)
Judge_cnf(e) ==
  IF e.exc # "" THEN {"raised:" \o e.exc} ELSE
  SatMachinery(e.c) \cup
  (IF e.c.n > MaxBits \/ e.nv > MaxBits THEN {"MACHINERY:too_many_bits"} ELSE
   LET c == e.c IN
   (IF \A i, j \in 1..c.n : e.vars[i] = e.vars[j] => i = j THEN {} ELSE {"variables_not_distinct"})
   \cup (IF \A i \in 1..c.n : e.vars[i] \in 1..e.nv THEN {} ELSE {"variable_out_of_range"})
   \cup (IF (\A i \in 1..c.n : e.vars[i] \in 1..e.nv)
            /\ Project(Models(e.nv, e.clauses), e.vars) # Consistent(c)
         THEN {"models_differ_from_consistent_valuations"} ELSE {}))

(* set of patterns (over the free signals of an acyclic circuit) on which node i has Boolean value b *)
HasVal(U, v, b) == IF b THEN v.one ELSE Zero(U, v)
RECURSIVE AssumSet(_,_,_,_,_)
AssumSet(U, vals, assum, j, acc) ==
  IF j > Len(assum) THEN acc
  ELSE AssumSet(U, vals, assum, j + 1, acc \cap HasVal(U, vals[assum[j][1]], assum[j][2]))
\* all-bits version for cyclic circuits: node i is bit i
RECURSIVE AssumBits(_,_,_,_)
AssumBits(n, assum, j, acc) ==
  IF j > Len(assum) THEN acc
  ELSE AssumBits(n, assum, j + 1,
                 acc \cap (IF assum[j][2] THEN ColTab[n][assum[j][1]] ELSE AllTab[n] \ ColTab[n][assum[j][1]]))
\* patterns (acyclic: over free signals; cyclic: over all nodes) consistent with the circuit and the assumptions
SatSet(c, assum) ==
  IF c.acyc THEN AssumSet(StdU(c), EvalStd(c), assum, 1, StdU(c))
  ELSE AssumBits(c.n, assum, 1, Consistent(c))

(* solve(c, A): e.assum = sequence of <<node index, BOOLEAN>>, e.res = "unsat" or sequence of BOOLEAN *)
Judge_solve(e) ==
  IF e.exc # "" THEN {"raised:" \o e.exc} ELSE
  LET c == e.c IN
  SatMachinery(c) \cup
  (IF ~c.acyc /\ c.n > MaxBits THEN {"MACHINERY:too_many_bits"}
   ELSE IF e.sat THEN
          (IF Len(e.res) = c.n THEN {} ELSE {"valuation_not_total"})
          \cup (IF Len(e.res) = c.n /\ \E j \in 1..Len(e.assum) : e.res[e.assum[j][1]] # e.assum[j][2]
                THEN {"valuation_contradicts_assumption"} ELSE {})
          \cup (IF Len(e.res) = c.n /\ ~ConsistentVal(c, e.res) THEN {"valuation_inconsistent"} ELSE {})
        ELSE IF SatSet(c, e.assum) = {} THEN {} ELSE {"unsat_but_satisfiable"})

(* model_count(c, A) = number of startpoint valuations that extend to a consistent valuation satisfying A. *)
StartNodes(c) == OfType(c, {"input", "bb_output"})
\* acyclic: free signals = startpoints + undriven nodes; project the satisfying patterns on the startpoints
StartVarsAcyc(c) == LET S == StartNodes(c) IN [q \in 1..Cardinality(S) |->
                      FreePos(c, CHOOSE i \in S : Cardinality({j \in S : j <= i}) = q)]
StartVarsBits(c) == LET S == StartNodes(c) IN [q \in 1..Cardinality(S) |->
                      CHOOSE i \in S : Cardinality({j \in S : j <= i}) = q]
Count(c, assum) ==
  IF c.acyc THEN Cardinality(Project(SatSet(c, assum), StartVarsAcyc(c)))
  ELSE Cardinality(Project(SatSet(c, assum), StartVarsBits(c)))

Judge_model_count(e) ==
  IF e.exc # "" THEN {"raised:" \o e.exc} ELSE
  SatMachinery(e.c) \cup
  (IF (~e.c.acyc /\ e.c.n > MaxBits) \/ (e.c.acyc /\ NFree(e.c) > MaxBits) THEN {"MACHINERY:too_many_bits"}
   ELSE IF e.count = Count(e.c, e.assum) THEN {} ELSE {"wrong_count"})

(* signal_probability(c, n, approx=False) = num/den: fraction of valuations of n's startpoints with n = 1.
   e.node = index of n, e.num / e.den = the returned float as an exact ratio.                               *)
RECURSIVE TFISet(_,_)
TFISet(c, S) == LET P == S \cup UNION {FiSet(c, i) : i \in S} IN IF P = S THEN S ELSE TFISet(c, P)
Judge_signal_probability(e) ==
  IF e.exc # "" THEN {"raised:" \o e.exc} ELSE
  LET c == e.c
      cone == TFISet(c, {e.node})
      sp == cone \cap StartNodes(c)
      vals == EvalStd(c)
      U == StdU(c)
      \* n depends only on its startpoints: count patterns over all free bits, scale
      ones == Cardinality(vals[e.node].one)
      k == NFree(c)
  IN SatMachinery(c) \cup
     (IF ~c.acyc THEN {"MACHINERY:cyclic"}
      ELSE IF vals[e.node].x # {} THEN {"MACHINERY:x_in_cone"}
      ELSE IF e.num * (2^k) = e.den * ones THEN {} ELSE {"wrong_probability"})

(* approx_model_count: the DIMACS file handed to the external counter.
   e.c, e.assum, e.ind (sampling set, variable numbers), e.nv, e.nclauses (header), e.clauses, e.vars, e.answer *)
Judge_dimacs(e) ==
  IF e.exc # "" THEN {"raised:" \o e.exc} ELSE
  LET c == e.c
      S == StartNodes(c)
  IN SatMachinery(c) \cup
     (IF e.hdr_nv > MaxBits \/ (~c.acyc /\ c.n > MaxBits) THEN {"MACHINERY:too_many_bits"} ELSE
      (IF e.hdr_nclauses = Len(e.clauses) THEN {} ELSE {"header_clause_count"})
      \cup (IF \A j \in 1..Len(e.clauses) : \A q \in 1..Len(e.clauses[j]) :
                 e.clauses[j][q] # 0 /\ e.clauses[j][q] \in (-e.hdr_nv)..e.hdr_nv THEN {} ELSE {"header_variable_count"})
      \cup (IF Len(e.vars) # c.n \/ Range(e.ind) = {e.vars[i] : i \in S} THEN {} ELSE {"sampling_set_not_startpoints"})
      \cup (IF (\A j \in 1..Len(e.clauses) : \A q \in 1..Len(e.clauses[j]) :
                 e.clauses[j][q] # 0 /\ e.clauses[j][q] \in (-e.hdr_nv)..e.hdr_nv)
               /\ Cardinality(Project(Models(e.hdr_nv, e.clauses), e.ind)) # Count(c, e.assum)
            THEN {"projected_model_count"} ELSE {})
      \cup (IF e.answer = Count(c, e.assum) THEN {} ELSE {"returned_count"}))
=============================================================================

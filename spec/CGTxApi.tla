------------------------------ MODULE CGTxApi ------------------------------
(***************************************************************************)
(* As-built models of transforms that are plain programs over the          *)
(* construction API: tx.miter and tx.unroll, written as the same sequences *)
(* of add / add_subcircuit / set_type / connect calls and run on the API   *)
(* model CGApi.  (Set iteration order does not matter for them: the calls  *)
(* of one loop are independent.)  MCTxApi checks the property relations of *)
(* C04 / C09 on the models' results; JudgeTx compares the circuit the real *)
(* code returned with the model's (MODEL-DRIFT if different).              *)
(***************************************************************************)
EXTENDS CGLogic

RECURSIVE TieInputs(_,_)
TieInputs(st, S) == IF S = {} THEN st ELSE LET n == CHOOSE x \in S : TRUE IN
                    TieInputs(AddN(st, n, "input", <<>>, <<"c0_" \o n, "c1_" \o n>>, FALSE), S \ {n})
RECURSIVE AddDifs(_,_)
AddDifs(st, E) == IF E = {} THEN st ELSE LET n == CHOOSE x \in E : TRUE IN
                  AddDifs(AddN(st, "dif_" \o n, "xor", <<"c0_" \o n, "c1_" \o n>>, <<"sat">>, FALSE), E \ {n})
\* c0, c1 : named states; S, E : sets of names (already defaulted by the caller)
MiterModel(c0, c1, S, E) ==
  LET s1 == SubC(SubC(EmptySt, c0, "c0", <<>>), c1, "c1", <<>>)
      s2 == TieInputs(s1, S)
      s3 == AddN(s2, "sat", IF Cardinality(E) > 1 THEN "or" ELSE "buf", <<>>, <<>>, TRUE)
  IN AddDifs(s3, E)

\* unroll(c, n, state_io) with the default prefix; sio : set of <<k, v>>
IoOf(c) == ScInputs(c) \cup ScOutputs(c)
UName(io, itr) == io \o "_cg_unroll_" \o ToString(itr)
RECURSIVE AddIoNodes(_,_,_,_,_)
AddIoNodes(st, c, sio, itr, todo) ==
  IF todo = {} THEN st
  ELSE LET io == CHOOSE x \in todo : TRUE
           t == IF io \in {p[2] : p \in sio} THEN "buf" ELSE IF io \in ScInputs(c) THEN "input" ELSE "buf"
       IN AddIoNodes(AddN(st, UName(io, itr), t, <<>>, <<>>, c.out[io]), c, sio, itr, todo \ {io})
RECURSIVE SetFrom(_,_), ConnState(_,_,_)
IoConns(c, itr) == LET RECURSIVE Sq(_) Sq(T) == IF T = {} THEN <<>> ELSE LET x == CHOOSE y \in T : TRUE IN <<Cn1(x, UName(x, itr))>> \o Sq(T \ {x})
                   IN Sq(IoOf(c))
SetFrom(st, T) == IF T = {} THEN st ELSE LET x == CHOOSE y \in T : TRUE IN SetFrom(SetTypeRes(st, <<x>>, "input").st, T \ {x})
ConnState(st, sio, itr) == IF sio = {} THEN st ELSE LET p == CHOOSE y \in sio : TRUE IN
                           ConnState(Conn1(st, UName(p[1], itr - 1), UName(p[2], itr)), sio \ {p}, itr)
RECURSIVE UnrollFrom(_,_,_,_,_)
UnrollFrom(st, c, n, sio, itr) ==
  IF itr >= n THEN st
  ELSE LET s1 == AddIoNodes(st, c, sio, itr, IoOf(c))
           s2 == SubC(s1, c, "unrolled_" \o ToString(itr), IoConns(c, itr))
           s3 == IF itr = 0 THEN SetFrom(s2, {UName(p[2], 0) : p \in sio}) ELSE ConnState(s2, sio, itr)
       IN UnrollFrom(s3, c, n, sio, itr + 1)
UnrollModel(c, n, sio) == UnrollFrom(EmptySt, c, n, sio, 0)
=============================================================================

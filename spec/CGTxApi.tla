------------------------------ MODULE CGTxApi ------------------------------
(***************************************************************************)
(* As-built models of transforms that are plain programs over the          *)
(* construction API: tx.miter and tx.unroll, written as the same sequences *)
(* of add / add_subcircuit / set_type / connect calls and run on the API   *)
(* model CGApi.  (Set iteration order does not matter for them: the calls  *)
(* of one loop are independent.)  MCTxApi checks the property relations of *)
(* C04 / C09 on the models' results; JudgeTx compares the circuit the real *)
(* code returned with the model's (MODEL-DRIFT if different).              *)
(***************************************************************************)
EXTENDS CGLogic

RECURSIVE SetToSeqApi(_)
SetToSeqApi(S) == IF S = {} THEN <<>> ELSE LET x == CHOOSE y \in S : TRUE IN <<x>> \o SetToSeqApi(S \ {x})

RECURSIVE TieInputs(_,_)
TieInputs(st, S) == IF S = {} THEN st ELSE LET n == CHOOSE x \in S : TRUE IN
                    TieInputs(AddN(st, n, "input", <<>>, <<"c0_" \o n, "c1_" \o n>>, FALSE), S \ {n})
RECURSIVE AddDifs(_,_)
AddDifs(st, E) == IF E = {} THEN st ELSE LET n == CHOOSE x \in E : TRUE IN
                  AddDifs(AddN(st, "dif_" \o n, "xor", <<"c0_" \o n, "c1_" \o n>>, <<"sat">>, FALSE), E \ {n})
\* c0, c1 : named states; S, E : sets of names (already defaulted by the caller)
MiterModel(c0, c1, S, E) ==
  LET s1 == SubC(SubC(EmptySt, c0, "c0", <<>>), c1, "c1", <<>>)
      s2 == TieInputs(s1, S)
      s3 == AddN(s2, "sat", IF Cardinality(E) > 1 THEN "or" ELSE "buf", <<>>, <<>>, TRUE)
  IN AddDifs(s3, E)

\* unroll(c, n, state_io) with the default prefix; sio : set of <<k, v>>
IoOf(c) == ScInputs(c) \cup ScOutputs(c)
UName(io, itr) == io \o "_cg_unroll_" \o ToString(itr)
RECURSIVE AddIoNodes(_,_,_,_,_)
AddIoNodes(st, c, sio, itr, todo) ==
  IF todo = {} THEN st
  ELSE LET io == CHOOSE x \in todo : TRUE
           t == IF io \in {p[2] : p \in sio} THEN "buf" ELSE IF io \in ScInputs(c) THEN "input" ELSE "buf"
       IN AddIoNodes(AddN(st, UName(io, itr), t, <<>>, <<>>, c.out[io]), c, sio, itr, todo \ {io})
RECURSIVE SetFrom(_,_), ConnState(_,_,_)
IoConns(c, itr) == LET RECURSIVE Sq(_) Sq(T) == IF T = {} THEN <<>> ELSE LET x == CHOOSE y \in T : TRUE IN <<Cn1(x, UName(x, itr))>> \o Sq(T \ {x})
                   IN Sq(IoOf(c))
SetFrom(st, T) == IF T = {} THEN st ELSE LET x == CHOOSE y \in T : TRUE IN SetFrom(SetTypeRes(st, <<x>>, "input").st, T \ {x})
ConnState(st, sio, itr) == IF sio = {} THEN st ELSE LET p == CHOOSE y \in sio : TRUE IN
                           ConnState(Conn1(st, UName(p[1], itr - 1), UName(p[2], itr)), sio \ {p}, itr)
RECURSIVE UnrollFrom(_,_,_,_,_)
UnrollFrom(st, c, n, sio, itr) ==
  IF itr >= n THEN st
  ELSE LET s1 == AddIoNodes(st, c, sio, itr, IoOf(c))
           s2 == SubC(s1, c, "unrolled_" \o ToString(itr), IoConns(c, itr))
           s3 == IF itr = 0 THEN SetFrom(s2, {UName(p[2], 0) : p \in sio}) ELSE ConnState(s2, sio, itr)
       IN UnrollFrom(s3, c, n, sio, itr + 1)
UnrollModel(c, n, sio) == UnrollFrom(EmptySt, c, n, sio, 0)

(* ---- tx.subcircuit(c, nodes) (modify_io = False) and tx.sensitization_transform(c, n, endpoints) ---- *)
Restrict(c, N) ==
  [nodes |-> N, ty |-> [x \in N |-> c.ty[x]], out |-> [x \in N |-> c.out[x]],
   edges |-> {e \in c.edges : e[1] \in N /\ e[2] \in N}, bbs |-> <<>>]
RECURSIVE BackClose(_,_)
BackClose(c, T) == LET T2 == T \cup UNION {FanIn(c, x) : x \in T} IN IF T2 = T THEN T ELSE BackClose(c, T2)
\* E = {} stands for "endpoints not given"
SensModel(c, n, E) ==
  LET sub == IF E = {} THEN c
             ELSE LET N == BackClose(c, E) IN [Restrict(c, N) EXCEPT !.out = [x \in N |-> x \in E]]
      m   == MiterModel(sub, sub, ScInputs(sub), ScOutputs(sub))
      c1n == "c1_" \o n
      m1  == DisconnectRes(m, SetToSeqApi(FanIn(m, c1n)), <<c1n>>).st
      m2  == SetTypeRes(m1, <<c1n>>, "not").st
  IN Conn1(m2, "c0_" \o n, c1n)

(* ---- tx.strip_blackboxes(c, ignore_pins) and tx.sequential_unroll (default prefix) ---- *)
RECURSIVE LastDotApi(_,_)
LastDotApi(x, i) == IF i < 1 THEN 0 ELSE IF SubSeq(x, i, i) = "." THEN i ELSE LastDotApi(x, i - 1)
PinPartApi(x) == SubSeq(x, LastDotApi(x, Len(x)) + 1, Len(x))
RECURSIVE DotsToUnder(_,_)
DotsToUnder(x, i) == IF i > Len(x) THEN "" ELSE (IF SubSeq(x, i, i) = "." THEN "_" ELSE SubSeq(x, i, i)) \o DotsToUnder(x, i + 1)
StripBlackboxesModel(c, ign) ==
  LET pins == {x \in c.nodes : c.ty[x] \in {"bb_input", "bb_output"}}
      gone == {x \in pins : PinPartApi(x) \in ign}
      c1 == RemoveNodes(c, gone)
      c2 == [c1 EXCEPT !.ty  = [x \in c1.nodes |-> IF c1.ty[x] = "bb_input" THEN "buf" ELSE IF c1.ty[x] = "bb_output" THEN "input" ELSE c1.ty[x]],
                       !.out = [x \in c1.nodes |-> IF c1.ty[x] = "bb_input" THEN TRUE ELSE c1.out[x]],
                       !.bbs = <<>>]
      f(x) == IF x \in pins THEN DotsToUnder(x, 1) ELSE x
  IN Relabel(c2, f)
\* c : named state with flop instances of one type [ins, outs]; d, q : pin names; ign : set of ignored pin names
SeqUnrollModel(c, n, d, q, ign, addFlopOutputs, init, removeUnloaded) ==
  LET cs0 == StripBlackboxesModel(c, ign)
      insts == DOMAIN c.bbs
      bb == c.bbs[CHOOSE b \in insts : TRUE]
      cs1 == RemoveNodes(cs0, {Pfx(b, p) : b \in insts, p \in (bb.ins \ {d}) \cup (bb.outs \ {q})})
      cs2 == IF removeUnloaded
             THEN RemoveNodes(cs1, {x \in cs1.nodes : cs1.ty[x] = "input" /\ FanOut(cs1, x) = {} /\ ~cs1.out[x]})
             ELSE cs1
      sio == {<<Pfx(b, d), Pfx(b, q)>> : b \in insts}
      uc  == UnrollModel(cs2, n, sio)
      u1  == [uc EXCEPT !.out = [x \in uc.nodes |-> IF \E b \in insts, t \in 0..(n-1) : x = UName(Pfx(b, d), t)
                                                   THEN addFlopOutputs ELSE uc.out[x]]]
  IN [u1 EXCEPT !.ty = [x \in u1.nodes |-> IF \E b \in insts : x = UName(Pfx(b, q), 0) /\ init[b] # "free"
                                            THEN init[CHOOSE b \in insts : x = UName(Pfx(b, q), 0)] ELSE u1.ty[x]]]
=============================================================================

------------------------------ MODULE JudgeApi ------------------------------
(***************************************************************************)
(* C07 (and the structural part of C06/C16): trace validation of whole     *)
(* API histories recorded from the real Circuit object.                    *)
(*                                                                         *)
(* event: [kind = "api_history", init (indexed circuit), steps]            *)
(* step : [op, a (arguments record), post (indexed circuit), exc, ret]     *)
(* The pre-state of step k is the post-state of step k-1 (init for k = 1). *)
(* History variable carried by the judge: the set of pin-node names the    *)
(* caller itself removed (remove / remove_unloaded on a pin).              *)
(*                                                                         *)
(* Clauses are tagged  "s<k>:<op>:<clause>".  Clauses starting "DRIFT:"    *)
(* say that the step differs from the AS-BUILT model (CGApi): they are     *)
(* reported as model drift, never as violations.                           *)
(***************************************************************************)
EXTENDS CGApi, CGLint

Tag(k, op, cl) == "s" \o ToString(k) \o ":" \o op \o ":" \o cl

PermsOf(S) == LET m == Cardinality(S) IN
              {[j \in 1..m |-> f[j]] : f \in {g \in [1..m -> S] : \A x, y \in 1..m : g[x] = g[y] => x = y}}
BBRec(b) == [type |-> b.type, ins |-> Range(b.ins), outs |-> Range(b.outs)]

\* the as-built results that can explain the step (a set: iteration orders of pin sets are existential)
AsBuilt(pre, s) ==
  LET a == s.a IN
  CASE s.op = "add"        -> {AddRes(pre, a.n, a.t, a.fanin, a.fanout, a.output, a.uid)}
    [] s.op = "connect"    -> {ConnectRes(pre, a.us, a.vs)}
    [] s.op = "disconnect" -> {DisconnectRes(pre, a.us, a.vs)}
    [] s.op = "remove"     -> {RemoveRes(pre, a.ns)}
    [] s.op = "set_output" -> {SetOutputRes(pre, a.ns, a.val)}
    [] s.op = "set_type"   -> {SetTypeRes(pre, a.ns, a.t)}
    [] s.op = "add_blackbox" ->
         {AddBlackboxRes(pre, BBRec(a.bb), a.name, io, oo, a.conns) : io \in PermsOf(Range(a.bb.ins)), oo \in PermsOf(Range(a.bb.outs))}
    [] s.op = "add_subcircuit" -> {AddSubcircuitRes(pre, ToNamed(a.sc), a.name, a.conns, a.strip)}
    [] s.op = "fill_blackbox"  -> {FillBlackboxRes(pre, a.name, ToNamed(a.sc))}
    [] s.op = "remove_unloaded" -> {Ok(RemoveUnloadedAsBuilt(pre, a.inputs).st)}
    [] OTHER -> {}

MustBeValueError == {"add", "connect", "add_blackbox", "add_subcircuit", "fill_blackbox"}

StepClauses(k, pre, s, removed, prevW, prevP) ==
  LET post == ToNamed(s.post)
      built == AsBuilt(pre, s)
      explained == \E r \in built : r.st = post /\ (r.exc = s.exc)
      newEdges == post.edges \ pre.edges
      how == IF s.exc # "" /\ explained THEN ":as_built_partial_effect" ELSE IF s.exc # "" THEN ":rejected_call" ELSE ""
      \* the operations the property quantifies over (remove_unloaded: C16 promises the same legality).  set_type, relabel and
      \* the parser-only forms of add (recorded from the test suite as opaque steps) may leave an illegal circuit: what they
      \* break is not charged to them, nor to the listed calls that follow (only NEW violations of a step are reported)
      inScope == s.op \in {"add", "connect", "disconnect", "remove", "set_output", "add_blackbox", "add_subcircuit", "fill_blackbox", "remove_unloaded"}
  IN (IF inScope THEN {Tag(k, s.op, cl \o how) : cl \in WiringViolations(s.post) \ prevW} ELSE {})
     \cup (IF inScope THEN {Tag(k, s.op, cl \o how) : cl \in PinViolations(s.post, removed) \ prevP} ELSE {})
     \cup (IF s.exc # "" /\ newEdges # {}
           THEN {Tag(k, s.op, "rejected_call_added_edges" \o (IF explained THEN ":as_built_partial_effect" ELSE ":unexplained"))}
           ELSE {})
     \* an accepted add_blackbox / add_subcircuit wires every connection it was asked for
     \cup (IF s.exc = "" /\ s.op = "add_blackbox"
           THEN {Tag(k, s.op, "requested_connection_missing:" \o s.a.conns[j][1]) : j \in {x \in 1..Len(s.a.conns) :
                   LET pn == s.a.conns[x][1]  tg == Range(s.a.conns[x][2])  pin == Pin(s.a.name, pn) IN
                   IF pn \in Range(s.a.bb.ins) THEN ~(\A t \in tg : <<t, pin>> \in post.edges)
                   ELSE IF pn \in Range(s.a.bb.outs) THEN ~(\A t \in tg : <<pin, t>> \in post.edges) ELSE FALSE}}
           ELSE {})
     \cup (IF s.exc # "" /\ s.op \in MustBeValueError /\ s.exc # "ValueError"
           THEN {Tag(k, s.op, "rejected_with_" \o s.exc)} ELSE {})
     \cup (IF s.op = "add" /\ s.a.uid
           THEN (IF pre.nodes \subseteq post.nodes
                    /\ \A n \in pre.nodes : post.ty[n] = pre.ty[n] /\ post.out[n] = pre.out[n]
                 THEN {} ELSE {Tag(k, s.op, "uid_add_changed_existing_node")})
                \cup (IF s.exc = "" /\ s.ret \in pre.nodes THEN {Tag(k, s.op, "uid_returned_existing_name")} ELSE {})
                \cup (IF s.exc = "" /\ s.ret \notin post.nodes THEN {Tag(k, s.op, "uid_returned_absent_name")} ELSE {})
           ELSE {})
     \cup (IF explained \/ built = {} THEN {} ELSE {"DRIFT:" \o Tag(k, s.op, "differs_from_as_built_model")})

\* pin names the caller removed itself in this step
RemovedNow(pre, s) ==
  IF s.op \in {"remove", "remove_unloaded"}
  THEN {n \in pre.nodes \ NameSet(s.post) : HasDot(n)}
  ELSE {}

RECURSIVE HistFrom(_,_,_,_,_,_,_)
HistFrom(e, k, pre, removed, prevW, prevP, acc) ==
  IF k > Len(e.steps) THEN acc
  ELSE LET s == e.steps[k] IN
       IF ~WellFormedRec(s.post) THEN acc \cup {"MACHINERY:malformed_record"}
       ELSE LET rem == removed \cup RemovedNow(pre, s) IN
            HistFrom(e, k + 1, ToNamed(s.post), rem, WiringViolations(s.post), PinViolations(s.post, rem),
                     acc \cup StepClauses(k, pre, s, rem, prevW, prevP))

Judge_api_history(e) ==
  IF ~WellFormedRec(e.init) THEN {"MACHINERY:malformed_record"}
  ELSE HistFrom(e, 1, ToNamed(e.init), {}, WiringViolations(e.init), PinViolations(e.init, {}), {})

(* C16  remove_unloaded(inputs): e.c (pre), e.post, e.ret (returned names), e.post2 / e.ret2 (second application) *)
Judge_remove_unloaded(e) ==
  IF e.exc # "" THEN {"raised:" \o e.exc} ELSE
  IF ~(WellFormedRec(e.c) /\ WellFormedRec(e.post) /\ WellFormedRec(e.post2)) THEN {"MACHINERY:malformed_record"} ELSE
  LET pre == ToNamed(e.c)
      post == ToNamed(e.post)
      exp == DeadSet(pre, e.inputs)
      deleted == pre.nodes \ post.nodes
  IN {"deleted_live_or_protected_node:" \o n : n \in deleted \ exp}
     \cup {"dead_node_kept:" \o n : n \in exp \ deleted}
     \cup (IF post = RemoveNodes(pre, deleted) THEN {} ELSE {"remaining_nodes_changed"})
     \cup (IF Range(e.ret) = deleted THEN {} ELSE {"returned_nodes_differ_from_deleted"})
     \cup (IF ToNamed(e.post2) = post /\ Len(e.ret2) = 0 THEN {} ELSE {"not_idempotent"})
     \cup (IF post = RemoveUnloadedAsBuilt(pre, e.inputs).st THEN {} ELSE {"DRIFT:differs_from_as_built_model"})
=============================================================================

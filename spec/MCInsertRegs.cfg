INIT InitInsertRegs
NEXT Next
INVARIANT InsertRegsOK

INIT InitInsertRegs
NEXT Next
INVARIANT InsertRegsOK
CHECK_DEADLOCK FALSE

------------------------------ MODULE CGTypes ------------------------------
(***************************************************************************)
(* Vocabulary of circuitgraph: node types, their classes, name helpers,    *)
(* and the *indexed* representation of a circuit that recorded events use. *)
(*                                                                         *)
(* An indexed circuit is a record                                          *)
(*   [name, n, names, ty, out, fi, bbs, acyc]                              *)
(* whose nodes are 1..n; names[i] is the node name, ty[i] its `type`       *)
(* attribute (NoType if the attribute is missing), out[i] its output mark, *)
(* fi[i] the sequence (without repetitions) of its fan-in node indices and *)
(* bbs the registry: a sequence of [inst, type, ins, outs].  When acyc is  *)
(* TRUE the harness claims 1..n is a topological order; IsTopo re-checks.  *)
(***************************************************************************)
EXTENDS Integers, Sequences, FiniteSets, TLC

Gates1    == {"buf", "not"}
GatesN    == {"and", "nand", "or", "nor", "xor", "xnor"}
Gates     == Gates1 \cup GatesN
Consts    == {"0", "1", "x"}
Addable   == Gates \cup Consts \cup {"input"}
BBPins    == {"bb_input", "bb_output"}
Supported == Addable \cup BBPins
NoFanin   == {"input", "0", "1", "x", "bb_output"}   \* may never be driven
OneFanin  == {"buf", "not", "bb_input"}             \* at most one driver
NoType    == "<none>"

Range(s)  == {s[i] : i \in 1..Len(s)}
SymDiff(a, b) == (a \ b) \cup (b \ a)
Max(S)    == CHOOSE m \in S : \A y \in S : y <= m
Min(S)    == CHOOSE m \in S : \A y \in S : m <= y
MaxOr0(S) == IF S = {} THEN 0 ELSE Max(S)

(* ---- names ---- *)
Pfx(inst, n) == inst \o "_" \o n            \* add_subcircuit / fill_blackbox naming
Pin(inst, p) == inst \o "." \o p            \* blackbox pin node naming
Digits       == {"0","1","2","3","4","5","6","7","8","9"}
StartsWithDigit(n) == Len(n) > 0 /\ SubSeq(n, 1, 1) \in Digits
RECURSIVE DotPos(_, _)
DotPos(n, i) == IF i > Len(n) THEN 0 ELSE IF SubSeq(n, i, i) = "." THEN i ELSE DotPos(n, i + 1)
HasDot(n)    == DotPos(n, 1) > 0
InstOf(n)    == SubSeq(n, 1, DotPos(n, 1) - 1)         \* text before the first dot
HasPrefix(n, p) == Len(n) >= Len(p) /\ SubSeq(n, 1, Len(p)) = p
StripPrefix(n, p) == SubSeq(n, Len(p) + 1, Len(n))

(* ---- indexed circuits ---- *)
Nodes(c)      == 1..c.n
FiSet(c, i)   == Range(c.fi[i])
FoSet(c, i)   == {j \in 1..c.n : i \in Range(c.fi[j])}
NameSet(c)    == Range(c.names)
HasName(c, nm) == \E i \in 1..c.n : c.names[i] = nm
Idx(c, nm)    == CHOOSE i \in 1..c.n : c.names[i] = nm
IdxMap(c)     == [nm \in NameSet(c) |-> CHOOSE i \in 1..c.n : c.names[i] = nm]
NamesOf(c, S) == {c.names[i] : i \in S}
OfType(c, T)  == {i \in 1..c.n : c.ty[i] \in T}
Inputs(c)     == OfType(c, {"input"})
Outputs(c)    == {i \in 1..c.n : c.out[i]}
InputNames(c) == NamesOf(c, Inputs(c))
OutputNames(c) == NamesOf(c, Outputs(c))
EdgeNames(c)  == UNION {{<<c.names[c.fi[j][p]], c.names[j]>> : p \in 1..Len(c.fi[j])} : j \in 1..c.n}
FiNames(c, i) == {c.names[j] : j \in Range(c.fi[i])}
UniqueNames(c) == \A i, j \in 1..c.n : c.names[i] = c.names[j] => i = j
IsTopo(c)     == \A i \in 1..c.n : \A p \in 1..Len(c.fi[i]) : c.fi[i][p] < i
WellFormedRec(c) ==
  /\ Len(c.names) = c.n /\ Len(c.ty) = c.n /\ Len(c.out) = c.n /\ Len(c.fi) = c.n
  /\ \A i \in 1..c.n : \A p \in 1..Len(c.fi[i]) : c.fi[i][p] \in 1..c.n
  /\ \A i \in 1..c.n : \A p, q \in 1..Len(c.fi[i]) : c.fi[i][p] = c.fi[i][q] => p = q
  /\ UniqueNames(c)
BBInsts(c)    == {c.bbs[b].inst : b \in 1..Len(c.bbs)}
BBOf(c, inst) == c.bbs[CHOOSE b \in 1..Len(c.bbs) : c.bbs[b].inst = inst]

(* Same abstract circuit (names, types, output marks, edges, registry), whatever the index order. *)
NamedView(c) ==
  [ nodes |-> NameSet(c),
    ty    |-> {<<c.names[i], c.ty[i]>> : i \in 1..c.n},
    out   |-> OutputNames(c),
    edges |-> EdgeNames(c),
    bbs   |-> {<<c.bbs[b].inst, c.bbs[b].type, Range(c.bbs[b].ins), Range(c.bbs[b].outs)>> : b \in 1..Len(c.bbs)} ]
SameCircuit(a, b) == NamedView(a) = NamedView(b)
=============================================================================

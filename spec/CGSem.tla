------------------------------- MODULE CGSem -------------------------------
(***************************************************************************)
(* The meaning of a circuit.  A *pattern* is an element of a finite        *)
(* universe U (normally 0 .. 2^k-1 for k free signals); the value of a     *)
(* node is a Kleene three-valued truth table  [one |-> S1, x |-> SX]  with *)
(* S1, SX disjoint subsets of U (the node is 1 on S1, X on SX, 0 on the    *)
(* rest).  One pass over a topological order evaluates all nodes on all    *)
(* patterns at once by set algebra.                                        *)
(*                                                                         *)
(* Node types:  gates = their function of the fan-in *set*; a multi-input  *)
(* type with one fan-in degenerates to buf / not; "0" "1" constants; "x" = *)
(* Kleene X;  input, bb_output and undriven gate / bb_input nodes are free *)
(* signals;  bb_input is a buffer.                                         *)
(***************************************************************************)
EXTENDS CGTypes

MaxBits == 13
AllTab == [k \in 0..MaxBits |-> 0 .. (2^k - 1)]
ColTab == [k \in 0..MaxBits |-> [j \in 1..k |-> {p \in 0 .. (2^k - 1) : (p \div (2^(j-1))) % 2 = 1}]]

(* ---- Kleene values ---- *)
K0        == [one |-> {}, x |-> {}]
K1(U)     == [one |-> U,  x |-> {}]
KX(U)     == [one |-> {}, x |-> U]
KCol(col) == [one |-> col, x |-> {}]
Zero(U, v) == U \ (v.one \cup v.x)
KNot(U, v) == [one |-> Zero(U, v), x |-> v.x]
IsBinary(v) == v.x = {}

RECURSIVE KAndSeq(_,_,_,_,_)   \* accZ = union of zeros, accO = intersection of ones
KAndSeq(U, vs, i, accZ, accO) ==
  IF i > Len(vs) THEN [one |-> accO, x |-> U \ (accZ \cup accO)]
  ELSE KAndSeq(U, vs, i+1, accZ \cup Zero(U, vs[i]), accO \cap vs[i].one)
RECURSIVE KOrSeq(_,_,_,_,_)    \* accO = union of ones, accZ = intersection of zeros
KOrSeq(U, vs, i, accO, accZ) ==
  IF i > Len(vs) THEN [one |-> accO, x |-> U \ (accZ \cup accO)]
  ELSE KOrSeq(U, vs, i+1, accO \cup vs[i].one, accZ \cap Zero(U, vs[i]))
RECURSIVE KXorSeq(_,_,_,_,_)   \* accX = union of x, accP = parity of ones
KXorSeq(U, vs, i, accX, accP) ==
  IF i > Len(vs) THEN [one |-> accP \ accX, x |-> accX]
  ELSE KXorSeq(U, vs, i+1, accX \cup vs[i].x, SymDiff(accP, vs[i].one))

KAnd(U, vs) == KAndSeq(U, vs, 1, {}, U)
KOr(U, vs)  == KOrSeq(U, vs, 1, {}, U)
KXor(U, vs) == KXorSeq(U, vs, 1, {}, {})
KMux(U, s, a, b) == KOr(U, << KAnd(U, <<s, a>>), KAnd(U, <<KNot(U, s), b>>) >>)   \* (s&a)|(~s&b), gate level

KGate(U, t, vs) ==
  CASE t \in {"buf", "bb_input"} -> IF Len(vs) = 0 THEN KX(U) ELSE vs[1]
    [] t = "not"  -> IF Len(vs) = 0 THEN KX(U) ELSE KNot(U, vs[1])
    [] t = "and"  -> KAnd(U, vs)
    [] t = "nand" -> KNot(U, KAnd(U, vs))
    [] t = "or"   -> KOr(U, vs)
    [] t = "nor"  -> KNot(U, KOr(U, vs))
    [] t = "xor"  -> KXor(U, vs)
    [] t = "xnor" -> KNot(U, KXor(U, vs))
    [] OTHER      -> KX(U)

(* ---- evaluation of an acyclic indexed circuit ---- *)
FreeNodes(c) == {i \in 1..c.n : c.ty[i] \in {"input", "bb_output"}
                                \/ (c.ty[i] \in Gates \cup {"bb_input"} /\ Len(c.fi[i]) = 0)}
FreeNames(c) == NamesOf(c, FreeNodes(c))

\* fv : node index -> K3 value; nodes in DOMAIN fv take that value whatever their type
RECURSIVE EvalFrom(_,_,_,_,_)
EvalFrom(c, U, fv, i, acc) ==
  IF i > c.n THEN acc
  ELSE LET t == c.ty[i]
           v == IF i \in DOMAIN fv THEN fv[i]
                ELSE CASE t = "0" -> K0 [] t = "1" -> K1(U) [] t = "x" -> KX(U)
                       [] OTHER -> KGate(U, t, [j \in 1..Len(c.fi[i]) |-> acc[c.fi[i][j]]])
       IN EvalFrom(c, U, fv, i+1, Append(acc, v))
Eval(c, U, fv) == EvalFrom(c, U, fv, 1, <<>>)

\* the standard assignment: free node number j (in index order) is bit j
NFree(c)    == Cardinality(FreeNodes(c))
FreePos(c, i) == Cardinality({j \in FreeNodes(c) : j <= i})
StdU(c)     == AllTab[NFree(c)]
StdFv(c)    == LET k == NFree(c) IN [i \in FreeNodes(c) |-> KCol(ColTab[k][FreePos(c, i)])]
StdColByName(c) == LET k == NFree(c) IN
                   [nm \in FreeNames(c) |-> ColTab[k][FreePos(c, Idx(c, nm))]]
EvalStd(c)  == Eval(c, StdU(c), StdFv(c))
\* columns by name for another circuit whose free nodes carry names in DOMAIN cols
FvByName(c, cols) == [i \in FreeNodes(c) |-> KCol(cols[c.names[i]])]

(* ---- two-valued check of one valuation (U = {0}) ---- *)
BVal(b) == IF b THEN [one |-> {0}, x |-> {}] ELSE K0
\* val : sequence of BOOLEAN, one per node.  Every non-free node equals its function of its fan-in.
ConsistentVal(c, val) ==
  \A i \in 1..c.n :
     \/ i \in FreeNodes(c)
     \/ LET t == c.ty[i] IN
        CASE t = "0" -> val[i] = FALSE
          [] t = "1" -> val[i] = TRUE
          [] t = "x" -> TRUE
          [] OTHER   -> BVal(val[i]) = KGate({0}, t, [j \in 1..Len(c.fi[i]) |-> BVal(val[c.fi[i][j]])])

(* ---- all-bits method: every node is a bit (cyclic circuits, <= MaxBits nodes) ---- *)
RECURSIVE ConsFrom(_,_,_)
ConsFrom(c, i, acc) ==
  IF i > c.n THEN acc
  ELSE LET U == AllTab[c.n]
           col == ColTab[c.n][i]
           t == c.ty[i]
           ok == IF i \in FreeNodes(c) THEN U
                 ELSE CASE t = "0" -> U \ col
                        [] t = "1" -> col
                        [] t = "x" -> U
                        [] OTHER -> U \ SymDiff(col, KGate(U, t, [j \in 1..Len(c.fi[i]) |-> KCol(ColTab[c.n][c.fi[i][j]])]).one)
       IN ConsFrom(c, i+1, acc \cap ok)
Consistent(c) == ConsFrom(c, 1, AllTab[c.n])       \* set of patterns over bits 1..n = node indices

Bit(p, j) == (p \div (2^(j-1))) % 2
\* pattern over node bits from a pattern over variable bits, varOf[i] = variable (bit) of node i
RECURSIVE ProjSum(_,_,_,_)
ProjSum(p, varOf, i, acc) == IF i > Len(varOf) THEN acc ELSE ProjSum(p, varOf, i+1, acc + Bit(p, varOf[i]) * 2^(i-1))
Project(S, varOf) == {ProjSum(p, varOf, 1, 0) : p \in S}

(* ---- CNF ---- *)
LitSet(nv, lit) == IF lit > 0 THEN ColTab[nv][lit] ELSE AllTab[nv] \ ColTab[nv][-lit]
RECURSIVE ClauseSet(_,_,_,_)
ClauseSet(nv, cl, i, acc) == IF i > Len(cl) THEN acc ELSE ClauseSet(nv, cl, i+1, acc \cup LitSet(nv, cl[i]))
RECURSIVE ModelsFrom(_,_,_,_)
ModelsFrom(nv, cls, i, acc) == IF i > Len(cls) THEN acc ELSE ModelsFrom(nv, cls, i+1, acc \cap ClauseSet(nv, cls[i], 1, {}))
Models(nv, cls) == ModelsFrom(nv, cls, 1, AllTab[nv])
=============================================================================

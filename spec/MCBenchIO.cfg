INIT Init
NEXT Next
INVARIANT WriterDenotes
INVARIANT BenchApplies
INVARIANT RoundTripRel
INVARIANT ReaderDenotes
INVARIANT ConstantsComeBackAsParityOfAnInput

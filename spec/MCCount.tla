------------------------------ MODULE MCCount ------------------------------
(***************************************************************************)
(* As-built model of sat.model_count: repeat { ask the solver for ANY      *)
(* satisfying valuation; block its projection on the startpoints; count }. *)
(* The solver's choice is nondeterministic.  Checked: the loop counts each *)
(* startpoint projection exactly once and terminates with Count(c, A).     *)
(***************************************************************************)
EXTENDS JudgeSat, CGFamilies

Small == {x \in NoX(G1(0)) : Len(x.fi[x.n]) <= 3}
Assums(x) == {<<>>, << <<x.n, TRUE>> >>, << <<x.n, FALSE>> >>, << <<1, TRUE>>, <<x.n, FALSE>> >>}

VARIABLES c, assum, blocked, count, done
vars == <<c, assum, blocked, count, done>>
Sat == SatSet(c, assum)                         \* satisfying patterns over the free signals
ProjOf(p) == ProjSum(p, StartVarsAcyc(c), 1, 0)
Init == /\ \E x \in Small : c = x /\ assum \in Assums(x)
        /\ blocked = {} /\ count = 0 /\ done = FALSE
Find == /\ ~done
        /\ \E p \in Sat : /\ ProjOf(p) \notin blocked
                          /\ blocked' = blocked \cup {ProjOf(p)}
                          /\ count' = count + 1
        /\ UNCHANGED <<c, assum, done>>
Stop == /\ ~done /\ \A p \in Sat : ProjOf(p) \in blocked
        /\ done' = TRUE /\ UNCHANGED <<c, assum, blocked, count>>
Next == Find \/ Stop
Spec == Init /\ [][Next]_vars
CountsBlocked == count = Cardinality(blocked)
ExactAtEnd == done => count = Count(c, assum)
=============================================================================

------------------------------- MODULE CGLint -------------------------------
(***************************************************************************)
(* Well-formedness of a circuit, rule by rule as utils.lint documents it   *)
(* (C20), and the wiring-legality invariant of the construction API (C07). *)
(* Everything is stated on indexed circuits (CGTypes).                     *)
(***************************************************************************)
EXTENDS CGTypes

LFo(c, i) == {j \in 1..c.n : i \in Range(c.fi[j])}

(* ---- the rules of lint ---- *)
R_Type(c, i)        == c.ty[i] \in Supported                                   \* a supported type
R_NoDrive(c, i)     == c.ty[i] \in NoFanin => Len(c.fi[i]) = 0                 \* no fan-in on input / constant / bb_output
R_OneDrive(c, i)    == c.ty[i] \in OneFanin => Len(c.fi[i]) <= 1               \* <= 1 fan-in on buf / not / bb_input
R_BBOutLoad(c, i)   == c.ty[i] = "bb_output" =>
                         /\ Cardinality(LFo(c, i)) <= 1
                         /\ \A j \in LFo(c, i) : c.ty[j] = "buf"               \* one load at most, and it is a buf
R_Dotted(c, i)      == HasDot(c.names[i]) => InstOf(c.names[i]) \in BBInsts(c) \* inst.pin needs an instance
R_Undriven(c, i)    == c.ty[i] \in Gates \cup {"bb_input"} => Len(c.fi[i]) >= 1
R_Unloaded(c, i)    == c.out[i] \/ LFo(c, i) # {}
R_SingleInput(c, i) == c.ty[i] \in GatesN => Len(c.fi[i]) >= 2
R_Pins(c, b) ==
  /\ \A p \in Range(c.bbs[b].ins) :
        HasName(c, Pin(c.bbs[b].inst, p)) /\ c.ty[Idx(c, Pin(c.bbs[b].inst, p))] = "bb_input"
  /\ \A p \in Range(c.bbs[b].outs) :
        HasName(c, Pin(c.bbs[b].inst, p)) /\ c.ty[Idx(c, Pin(c.bbs[b].inst, p))] = "bb_output"

\* flags : [unloaded, undriven, single_input_gates : BOOLEAN]
LintOK(c, flags) ==
  /\ \A i \in 1..c.n :
       /\ R_Type(c, i) /\ R_NoDrive(c, i) /\ R_OneDrive(c, i) /\ R_BBOutLoad(c, i) /\ R_Dotted(c, i)
       /\ (flags.undriven => R_Undriven(c, i))
       /\ (flags.unloaded => R_Unloaded(c, i))
       /\ (flags.single_input_gates => R_SingleInput(c, i))
  /\ \A b \in 1..Len(c.bbs) : R_Pins(c, b)
DefaultFlags == [unloaded |-> FALSE, undriven |-> TRUE, single_input_gates |-> FALSE]
WiringFlags  == [unloaded |-> FALSE, undriven |-> FALSE, single_input_gates |-> FALSE]
LintClean(c) == LintOK(c, DefaultFlags)

\* names of the violated rules (for verdicts)
Violated(c, flags) ==
  UNION {   (IF R_Type(c, i) THEN {} ELSE {"type"}) \cup (IF R_NoDrive(c, i) THEN {} ELSE {"fanin_on_source"})
       \cup (IF R_OneDrive(c, i) THEN {} ELSE {"multiple_drivers"}) \cup (IF R_BBOutLoad(c, i) THEN {} ELSE {"bb_output_load"})
       \cup (IF R_Dotted(c, i) THEN {} ELSE {"dotted_without_instance"})
       \cup (IF flags.undriven /\ ~R_Undriven(c, i) THEN {"undriven"} ELSE {})
       \cup (IF flags.unloaded /\ ~R_Unloaded(c, i) THEN {"unloaded"} ELSE {})
       \cup (IF flags.single_input_gates /\ ~R_SingleInput(c, i) THEN {"single_input_gate"} ELSE {}) : i \in 1..c.n}
  \cup UNION {IF R_Pins(c, b) THEN {} ELSE {"blackbox_pins"} : b \in 1..Len(c.bbs)}

(* ---- C07: the invariant the construction API must keep ---- *)
LegalWiring(c) ==
  \A i \in 1..c.n : R_Type(c, i) /\ R_NoDrive(c, i) /\ R_OneDrive(c, i) /\ R_BBOutLoad(c, i)
                    /\ (c.ty[i] = "bb_input" => LFo(c, i) = {})
WiringViolations(c) ==
  UNION {   (IF R_Type(c, i) THEN {} ELSE {"unsupported_type:" \o c.names[i]})
       \cup (IF R_NoDrive(c, i) THEN {} ELSE {"fanin_on_source:" \o c.names[i]})
       \cup (IF R_OneDrive(c, i) THEN {} ELSE {"multiple_drivers:" \o c.names[i]})
       \cup (IF R_BBOutLoad(c, i) THEN {} ELSE {"bb_output_load:" \o c.names[i]})
       \cup (IF c.ty[i] = "bb_input" /\ LFo(c, i) # {} THEN {"fanout_from_bb_input:" \o c.names[i]} ELSE {}) : i \in 1..c.n}
\* every registered instance has all its pins with the right type, unless the caller itself removed that pin node
\* (whatever it put there afterwards under the same name is its own business)
PinViolations(c, removed) ==
  UNION { {"missing_pin:" \o Pin(c.bbs[b].inst, p) :
             p \in {q \in Range(c.bbs[b].ins) \cup Range(c.bbs[b].outs) :
                      ~HasName(c, Pin(c.bbs[b].inst, q)) /\ Pin(c.bbs[b].inst, q) \notin removed}}
          \cup {"mistyped_pin:" \o Pin(c.bbs[b].inst, p) :
             p \in {q \in Range(c.bbs[b].ins) : HasName(c, Pin(c.bbs[b].inst, q)) /\ Pin(c.bbs[b].inst, q) \notin removed
                                                 /\ c.ty[Idx(c, Pin(c.bbs[b].inst, q))] # "bb_input"}}
          \cup {"mistyped_pin:" \o Pin(c.bbs[b].inst, p) :
             p \in {q \in Range(c.bbs[b].outs) : HasName(c, Pin(c.bbs[b].inst, q)) /\ Pin(c.bbs[b].inst, q) \notin removed
                                                  /\ c.ty[Idx(c, Pin(c.bbs[b].inst, q))] # "bb_output"}}
        : b \in 1..Len(c.bbs)}
=============================================================================

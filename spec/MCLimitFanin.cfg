SPECIFICATION Spec
INVARIANT FunctionPreserved
INVARIANT BoundAtEnd
CHECK_DEADLOCK FALSE

------------------------------- MODULE MCLogic -------------------------------
(***************************************************************************)
(* The as-built generator models of CGLogic (the API-call sequences of     *)
(* circuitgraph.logic run on the API model) evaluated by CGSem on ALL      *)
(* input vectors: adder w <= 3 (x carry_in x carry_out), mux w <= 5,       *)
(* popcount w <= 6, half and full adder.  Property = JudgeLogic's relation *)
(* (io names, lint-clean, arithmetic on bit sequences).                    *)
(***************************************************************************)
EXTENDS JudgeLogic

VARIABLES block, w, cin, cout
vars == <<block, w, cin, cout>>
Params == {[b |-> "adder", w |-> ww, ci |-> ci, co |-> co] : ww \in 1..3, ci \in BOOLEAN, co \in BOOLEAN}
          \cup {[b |-> "mux", w |-> ww, ci |-> FALSE, co |-> FALSE] : ww \in 1..5}
          \cup {[b |-> "popcount", w |-> ww, ci |-> FALSE, co |-> FALSE] : ww \in 1..6}
          \cup {[b |-> "half_adder", w |-> 1, ci |-> FALSE, co |-> FALSE], [b |-> "full_adder", w |-> 1, ci |-> TRUE, co |-> TRUE]}
Init == \E p \in Params : block = p.b /\ w = p.w /\ cin = p.ci /\ cout = p.co
Next == UNCHANGED vars

Event ==
  LET c == Indexed(ModelBlock(block, w, cin, cout))
      ins == SelectSeq(c.names, LAMBDA nm : c.ty[Idx(c, nm)] = "input")
      k == Len(ins)
  IN [block |-> block, w |-> w, cin |-> cin, cout |-> cout, c |-> c, inames |-> ins, exc |-> "", lint_exc |-> "",
      vecs |-> [j \in 1..(2^k) |-> [q \in 1..k |-> ((j - 1) \div (2^(q - 1))) % 2]]]
Correct == Judge_logic(Event) = {}
=============================================================================

------------------------------- MODULE Trace -------------------------------
(***************************************************************************)
(* Trace validation: one TLC state per recorded event of the real code.    *)
(* The event is judged by the property relation of its kind; the verdict   *)
(* (set of failed clauses) is printed as one JSON line when non-empty.     *)
(* Acceptance = every line of the trace file was consumed.                 *)
(***************************************************************************)
EXTENDS JudgeTx, JudgeSat, JudgeGraph, JudgeLint, JudgeApi, JudgeComp, JudgeFrame, JudgeLogic, CGBenchIO, CGExprReader, Json, IOUtils

Tr == ndJsonDeserialize(IOEnv.TRACE_FILE)

JudgeEvent(e) ==
  CASE e.kind = "limit_fanin"  -> Judge_limit_fanin(e)
    [] e.kind = "limit_fanout" -> Judge_limit_fanout(e)
    [] e.kind = "insert_registers" -> Judge_insert_registers(e)
    [] e.kind = "acyclic_unroll_acyclic" -> Judge_acyclic_unroll_acyclic(e)
    [] e.kind = "miter" -> Judge_miter(e)
    [] e.kind = "ternary" -> Judge_ternary(e)
    [] e.kind = "unroll" -> Judge_unroll(e)
    [] e.kind = "sequential_unroll" -> Judge_sequential_unroll(e)
    [] e.kind = "sensitization_transform" -> Judge_sensitization_transform(e)
    [] e.kind = "sensitize" -> Judge_sensitize(e)
    [] e.kind = "sensitivity_transform" -> Judge_sensitivity_transform(e)
    [] e.kind = "sensitivity_props" -> Judge_sensitivity_props(e)
    [] e.kind = "acyclic_unroll_cyclic" -> Judge_acyclic_unroll_cyclic(e)
    [] e.kind = "supergates" -> Judge_supergates(e)
    [] e.kind = "cnf"          -> Judge_cnf(e)
    [] e.kind = "solve"        -> Judge_solve(e)
    [] e.kind = "model_count"  -> Judge_model_count(e)
    [] e.kind = "signal_probability" -> Judge_signal_probability(e)
    [] e.kind = "dimacs"       -> Judge_dimacs(e)
    [] e.kind = "graph"        -> Judge_graph(e)
    [] e.kind = "lint"         -> Judge_lint(e)
    [] e.kind = "lint_output"  -> Judge_lint_output(e)
    [] e.kind = "remove_unloaded" -> Judge_remove_unloaded(e)
    [] e.kind = "add_subcircuit" -> Judge_add_subcircuit(e)
    [] e.kind = "fill_blackbox" -> Judge_fill_blackbox(e)
    [] e.kind = "strip_blackboxes" -> Judge_strip_blackboxes(e)
    [] e.kind = "frame" -> Judge_frame(e)
    [] e.kind = "alias" -> Judge_alias(e)
    [] e.kind = "logic" -> Judge_logic(e)
    [] e.kind = "clog2" -> Judge_clog2(e)
    [] e.kind = "int_to_bin" -> Judge_int_to_bin(e)
    [] e.kind = "parse" -> Judge_parse(e) \cup DriftParse(e) \cup DriftBenchParse(e) \cup DriftExprParse(e)
    [] e.kind = "v_roundtrip" -> Judge_v_roundtrip(e) \cup DriftRoundTrip(e) \cup DriftWriter(e)
    [] e.kind = "bench_roundtrip" -> Judge_bench_roundtrip(e) \cup DriftBenchRoundTrip(e)
    [] e.kind = "parse2" -> Judge_parse2(e) \cup DriftParse2(e)
    [] e.kind = "api_history"  -> Judge_api_history(e)
    \* a call the drivers expected to return (or to raise one of the exceptions they record) raised inside the library
    [] e.kind = "as_built" -> Judge_as_built(e)
    [] e.kind = "driver_exception" -> {"unexpected_exception:" \o e.exc \o "@" \o e.where}
    [] OTHER -> {"MACHINERY:unknown_kind"}

VARIABLE l
Init == l = 1
Next == /\ l <= Len(Tr)
        /\ l' = l + 1
        /\ LET e == Tr[l]
               f == JudgeEvent(e)
           IN IF f = {} THEN TRUE ELSE PrintT(ToJson([id |-> e.id, failed |-> f]))
Spec == Init /\ [][Next]_l
Accept == TLCGet("stats").diameter = Len(Tr) + 1
=============================================================================

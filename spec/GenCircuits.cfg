INIT Init
NEXT Next

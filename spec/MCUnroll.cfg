INIT InitUnroll
NEXT Next
INVARIANT UnrollOK

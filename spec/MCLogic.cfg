INIT Init
NEXT Next
INVARIANT Correct

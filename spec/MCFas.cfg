SPECIFICATION Spec
INVARIANT IsOrdering
INVARIANT FasBreaksAllCycles
INVARIANT NodeCutBreaksAllCycles
INVARIANT AcyclicHasNoFeedback
INVARIANT CyclicHasFeedback
INVARIANT SameAsOperator
PROPERTY Terminates
CHECK_DEADLOCK FALSE

SPECIFICATION SpecReach
INVARIANT TypeOK
INVARIANT LegalWiring
CHECK_DEADLOCK FALSE

SPECIFICATION Spec
POSTCONDITION Accept
CHECK_DEADLOCK FALSE

----------------------------- MODULE JudgeFrame -----------------------------
(***************************************************************************)
(* C19 on recorded calls of the real code.                                 *)
(*  frame event: a function was called with a circuit argument; e.before / *)
(*    e.after are the argument's abstract state around the call (whether   *)
(*    it returned or raised).  ArgsUnchanged: they are the same circuit.   *)
(*  alias event: one object (result or argument) was edited; e.before /    *)
(*    e.after are the OTHER object's abstract state around the edit.       *)
(*    NoSharing, read behaviourally: the other object did not change.      *)
(* e.xb / e.xa : every node/graph attribute other than type/output, as     *)
(* sorted sequences (compared literally).                                  *)
(***************************************************************************)
EXTENDS CGTypes

Unchanged(e) ==
  (IF WellFormedRec(e.before) /\ WellFormedRec(e.after) THEN {} ELSE {"MACHINERY:malformed_record"})
  \cup (IF e.before.name = e.after.name THEN {} ELSE {"name_changed"})
  \cup (IF NameSet(e.before) = NameSet(e.after) THEN {} ELSE {"node_set_changed"})
  \cup (IF NamedView(e.before).ty = NamedView(e.after).ty THEN {} ELSE {"node_type_changed"})
  \cup (IF OutputNames(e.before) = OutputNames(e.after) THEN {} ELSE {"output_marks_changed"})
  \cup (IF EdgeNames(e.before) = EdgeNames(e.after) THEN {} ELSE {"edges_changed"})
  \cup (IF NamedView(e.before).bbs = NamedView(e.after).bbs THEN {} ELSE {"blackbox_registry_changed"})
  \cup (IF e.xb = e.xa THEN {} ELSE {"other_attributes_changed"})

Judge_frame(e) == {"argument_modified:" \o e.fn \o ":" \o cl : cl \in Unchanged(e)}
Judge_alias(e) == {"shared_state:" \o e.fn \o ":edit_" \o e.side \o ":" \o e.edit \o ":" \o cl : cl \in Unchanged(e)}
=============================================================================

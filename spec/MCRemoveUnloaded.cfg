SPECIFICATION Spec
INVARIANT MatchesSpec
INVARIANT Idempotent
INVARIANT NeverDeletesLive
INVARIANT InputsKept
CHECK_DEADLOCK FALSE

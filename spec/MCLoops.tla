------------------------------- MODULE MCLoops -------------------------------
(***************************************************************************)
(* Model checking of the as-built loop models of CGTxLoops: the property   *)
(* relations of C18 / C05 (JudgeTx) hold on EVERY possible result of       *)
(*   acyclic_unroll  - every cyclic circuit made of 3 gates (each with its *)
(*                     own primary input) wired as any cyclic digraph on 3 *)
(*                     nodes, three gate typings, every feedback set the   *)
(*                     heuristic can return under any tie-break;           *)
(*   limit_fanout    - every DAG shape on 5 nodes, k = 2, 3, every choice  *)
(*                     of the two loads moved behind each new buffer;      *)
(*   insert_registers- every DAG shape on 5 nodes, 1..3 stages.            *)
(***************************************************************************)
EXTENDS JudgeTx, CGTxLoops, CGFamilies, CGGraph, IOUtils

Strip(f) == {x \in f : ~HasPrefix(x, "DRIFT:")}
\* go: the relations are evaluated on the SUCCESSOR of each initial state, so that TLC's workers share the work
\* (initial states are generated and checked by a single thread)
VARIABLES kind, c0, k, F, go
vars == <<kind, c0, k, F, go>>

(* ---- acyclic_unroll on cyclic circuits ---- *)
GN(i) == "g" \o ToString(i)
XN(i) == "x" \o ToString(i)
Typings == { <<"nand", "nand", "nand">>, <<"nor", "nand", "xor">>, <<"and", "or", "nor">>, <<"xor", "xnor", "nand">> }
\* indexed, names sorted (g1 g2 g3 x1 x2 x3): the record form the harness produces for cyclic circuits
CycCirc(E, T, O) ==
  [name |-> "cyc", n |-> 6, names |-> <<GN(1), GN(2), GN(3), XN(1), XN(2), XN(3)>>,
   ty  |-> <<T[1], T[2], T[3], "input", "input", "input">>,
   out |-> [q \in 1..6 |-> q \in O],
   fi  |-> [q \in 1..6 |-> IF q > 3 THEN <<>> ELSE SelectSeq(<<1, 2, 3>>, LAMBDA p : <<p, q>> \in E) \o <<q + 3>>],
   bbs |-> <<>>, acyc |-> FALSE]
CycFam == {CycCirc(E, T, O) : E \in {X \in SUBSET PairsNE(3) : ~AcyclicEdges(1..3, X)}, T \in Typings, O \in {{1}, {2, 3}, {1, 2, 3}}}
InitAcyclicUnroll == /\ go = FALSE /\ kind = "acyclic_unroll" /\ k = 0
                     /\ c0 \in CycFam
                     /\ F \in FasNodeSets(ToNamed(c0))
AcyclicUnrollEvent == [c |-> c0, r |-> Indexed(AcyclicUnrollModel(ToNamed(c0), F)), exc |-> ""]
AcyclicUnrollOK == go /\ kind = "acyclic_unroll" => Strip(Judge_acyclic_unroll_cyclic(AcyclicUnrollEvent)) = {}
\* the feedback set is read back from the aux_in_<f> names, as the judge does for recorded results
HintReadsFeedback == go /\ kind = "acyclic_unroll" =>
   LET r == AcyclicUnrollEvent.r  A == InputNames(r) \ InputNames(c0) IN
   HintUsable(c0, A) /\ {AuxHint(c0, A)[a] : a \in A} = F

(* ---- limit_fanout ---- *)
\* the DAG shapes with every non-source node of one gate type (and: repeated operands are harmless; xor / nor: they are not)
Retyped(c, t) == [c EXCEPT !.ty = [q \in 1..c.n |-> IF c.ty[q] = "input" THEN "input" ELSE t]]
Full == "MC_FULL" \in DOMAIN IOEnv          \* thorough tier: the 6-node shapes too
Shapes == {Retyped(c, t) : c \in DAG5(0) \cup (IF Full THEN DAG6(0) ELSE {}), t \in {"and", "xor", "nor"}}
InitLimitFanout == /\ go = FALSE /\ kind = "limit_fanout" /\ F = {}
                   /\ c0 \in Shapes /\ k \in {2, 3}
                   /\ MaxFanout(c0) > k
LimitFanoutOK == go /\ kind = "limit_fanout" =>
   \A st \in LimitFanoutResults(ToNamed(c0), k) :
      Strip(Judge_limit_fanout([c |-> c0, r |-> Indexed(st), k |-> k, exc |-> ""])) = {}

(* ---- insert_registers ---- *)
Flop == [type |-> "ff", ins |-> {"clk", "d"}, outs |-> {"q"}]
InitInsertRegs == /\ go = FALSE /\ kind = "insert_registers" /\ F = {}
                  /\ c0 \in Shapes /\ k \in 1..3
Transparent(st) ==
  [st EXCEPT !.ty = [x \in st.nodes |-> IF st.ty[x] = "bb_output" THEN "buf" ELSE st.ty[x]],
             !.edges = st.edges \cup {<<Pin(b, "d"), Pin(b, "q")>> : b \in DOMAIN st.bbs}]
InsertRegsOK == go /\ kind = "insert_registers" =>
   LET m == InsertRegistersModel(ToNamed(c0), k, Flop, "d", "q", << <<"clk", "clk">> >>) IN
   IF ~m.ok THEN RoundDiv(Max({0} \cup {LongestFrom(c0)[i] : i \in 1..c0.n}), k + 1) = 0
   ELSE Strip(Judge_insert_registers([c |-> c0, r |-> IndexedB(m.st), rt |-> IndexedB(Transparent(m.st)), k |-> k, latch |-> FALSE, exc |-> ""])) = {}
(* ---- sensitivity_transform: every two-gate circuit over a, b, c (fan-in <= 2), the node g2, every enumeration order ---- *)
SFam == {c \in G2ok(0) : c.ty[4] \in (IF Full THEN {"and", "xor", "not", "nor"} ELSE {"and", "not"})
                         /\ c.ty[5] \in (IF Full THEN {"and", "xor", "nand", "buf"} ELSE {"xor", "nand"})
                         /\ Len(c.fi[4]) <= 2 /\ Len(c.fi[5]) <= 2
                         /\ (Full \/ (Len(c.fi[4]) = 2 /\ 4 \in Range(c.fi[5])))}
InitSens == /\ go = FALSE /\ kind = "sensitivity_transform" /\ k = 0 /\ F = {}
            /\ c0 \in SFam
SensTxOK == go /\ kind = "sensitivity_transform" =>
   \A st \in SensitivityResults(ToNamed(c0), "g2") :
      Strip(Judge_sensitivity_transform([c |-> c0, node |-> "g2", sen |-> Indexed(st), exc |-> ""])) = {}
Next == go = FALSE /\ go' = TRUE /\ UNCHANGED <<kind, c0, k, F>>
=============================================================================

SPECIFICATION Spec
INVARIANT CountsBlocked
INVARIANT ExactAtEnd
CHECK_DEADLOCK FALSE

------------------------------- MODULE CGLogic -------------------------------
(***************************************************************************)
(* As-built models of the generators in circuitgraph.logic, written as the *)
(* SAME sequences of construction-API calls the Python code makes, run on  *)
(* the API model CGApi (add, add_subcircuit, connect, relabel, remove).    *)
(* The result is a named state; Indexed() lists it in a topological order  *)
(* so that CGSem can evaluate it.  MCLogic checks the arithmetic for all   *)
(* input vectors of the small widths; JudgeLogic compares the circuit the  *)
(* real generator returned with the model's (MODEL-DRIFT if different).    *)
(***************************************************************************)
EXTENDS CGApi, CGSem

AddN(st, n, t, fi, fo, o) == AddRes(st, n, t, fi, fo, o, FALSE).st
SubC(st, sc, name, conns) == AddSubcircuitRes(st, sc, name, conns, TRUE).st
Conn1(st, u, v) == ConnectRes(st, <<u>>, <<v>>).st
Cn1(k, t) == <<k, <<t>>>>                                   \* one connection: child io k <-> parent net t
LNm(p, i) == p \o ToString(i)

HalfAdder ==
  LET s1 == AddN(EmptySt, "x", "input", <<>>, <<>>, FALSE)
      s2 == AddN(s1, "y", "input", <<>>, <<>>, FALSE)
      s3 == AddN(s2, "c", "and", <<"x", "y">>, <<>>, TRUE)
  IN AddN(s3, "s", "xor", <<"x", "y">>, <<>>, TRUE)

FullAdder ==
  LET s1 == AddN(EmptySt, "x", "input", <<>>, <<>>, FALSE)
      s2 == AddN(s1, "y", "input", <<>>, <<>>, FALSE)
      s3 == AddN(s2, "cin", "input", <<>>, <<>>, FALSE)
      s4 == SubC(s3, HalfAdder, "x_y_ha", <<Cn1("x", "x"), Cn1("y", "y")>>)
      s5 == SubC(s4, HalfAdder, "cin_s_ha", <<Cn1("x", "x_y_ha_s"), Cn1("y", "cin")>>)
      s6 == AddN(s5, "cout", "or", <<"x_y_ha_c", "cin_s_ha_c">>, <<>>, TRUE)
  IN AddN(s6, "s", "buf", <<"cin_s_ha_s">>, <<>>, TRUE)

RECURSIVE AdderBits(_,_,_,_)
AdderBits(st, bit, w, carry) ==
  IF bit >= w THEN [st |-> st, carry |-> carry]
  ELSE LET s1 == AddN(st, LNm("a_", bit), "input", <<>>, <<>>, FALSE)
           s2 == AddN(s1, LNm("b_", bit), "input", <<>>, <<>>, FALSE)
           s3 == AddN(s2, LNm("out_", bit), "buf", <<>>, <<>>, TRUE)
           s4 == SubC(s3, FullAdder, LNm("fa_", bit),
                     <<Cn1("x", LNm("a_", bit)), Cn1("y", LNm("b_", bit)), Cn1("cin", carry), Cn1("s", LNm("out_", bit))>>)
       IN AdderBits(s4, bit + 1, w, LNm("fa_", bit) \o "_cout")
Adder(w, cin, cout) ==
  LET s0 == AddN(EmptySt, "cin", IF cin THEN "input" ELSE "0", <<>>, <<>>, FALSE)
      r == AdderBits(s0, 0, w, "cin")
  IN IF cout THEN AddN(r.st, "cout", "buf", <<r.carry>>, <<>>, TRUE) ELSE r.st

RECURSIVE Clog2L(_,_,_)
Clog2L(n, sh, acc) == IF n > sh THEN Clog2L(n, 2 * sh, acc + 1) ELSE acc
LClog2(n) == Clog2L(n, 1, 0)

\* mux(w): one AND per data input with the select literals of its index; product(*sels[::-1]) makes sel_0 the fastest digit
RECURSIVE MuxIns(_,_,_), MuxSels(_,_,_), MuxAnds(_,_,_,_)
MuxIns(st, i, w) == IF i >= w THEN st ELSE MuxIns(AddN(st, LNm("in_", i), "input", <<>>, <<>>, FALSE), i + 1, w)
MuxSels(st, i, k) == IF i >= k THEN st
                     ELSE MuxSels(AddN(AddN(st, LNm("sel_", i), "input", <<>>, <<>>, FALSE), LNm("not_sel_", i), "not", <<LNm("sel_", i)>>, <<>>, FALSE), i + 1, k)
SelLits(i, k) == [j \in 1..k |-> LET b == k - j IN IF (i \div (2^b)) % 2 = 1 THEN LNm("sel_", b) ELSE LNm("not_sel_", b)]
MuxAnds(st, i, w, k) == IF i >= w THEN st
                        ELSE MuxAnds(AddN(st, LNm("and_", i), "and", SelLits(i, k) \o <<LNm("in_", i)>>, <<"out">>, FALSE), i + 1, w, k)
Mux(w) == LET k == LClog2(w)
              s1 == MuxSels(MuxIns(EmptySt, 0, w), 0, k)
              s2 == AddN(s1, "out", "or", <<>>, <<>>, TRUE)
          IN MuxAnds(s2, 0, w, k)

\* popcount(w): queue of partial sums; pop two, pad with tie0, add with an adder(aw, carry_out), relabel the carry as top bit
RelabelOne(st, old, new) == LET f(x) == IF x = old THEN new ELSE x IN Relabel(st, f)
RECURSIVE ConnAll(_,_,_,_)
ConnAll(st, srcs, prefix, j) == IF j > Len(srcs) THEN st ELSE ConnAll(Conn1(st, srcs[j], prefix \o ToString(j - 1)), srcs, prefix, j + 1)
Pad(s, aw) == s \o [j \in 1..(aw - Len(s)) |-> "tie0"]
RECURSIVE PopLoop(_,_,_)
PopLoop(st, ps, i) ==
  IF Len(ps) <= 1 THEN [st |-> st, ps |-> ps]
  ELSE LET ns0 == ps[1]  ms0 == ps[2]
           aw == IF Len(ns0) > Len(ms0) THEN Len(ns0) ELSE Len(ms0)
           ns == Pad(ns0, aw)  ms == Pad(ms0, aw)
           nm == LNm("add_", i)
           s1 == SubC(st, Adder(aw, FALSE, TRUE), nm, <<>>)
           s2 == RelabelOne(s1, nm \o "_cout", nm \o "_out_" \o ToString(aw))
           s3 == ConnAll(ConnAll(s2, ns, nm \o "_a_", 1), ms, nm \o "_b_", 1)
       IN PopLoop(s3, SubSeq(ps, 3, Len(ps)) \o << [j \in 1..(aw + 1) |-> nm \o "_out_" \o ToString(j - 1)] >>, i + 1)
RECURSIVE PopIns(_,_,_), PopOuts(_,_,_)
PopIns(st, i, w) == IF i >= w THEN st ELSE PopIns(AddN(st, LNm("in_", i), "input", <<>>, <<>>, FALSE), i + 1, w)
PopOuts(st, bits, j) == IF j > Len(bits) THEN st ELSE PopOuts(AddN(st, LNm("out_", j - 1), "buf", <<bits[j]>>, <<>>, TRUE), bits, j + 1)
Popcount(w) ==
  LET s1 == AddN(PopIns(EmptySt, 0, w), "tie0", "0", <<>>, <<>>, FALSE)
      r  == PopLoop(s1, [j \in 1..w |-> <<LNm("in_", j - 1)>>], 0)
      s2 == PopOuts(r.st, r.ps[1], 1)
  IN IF FanOut(s2, "tie0") = {} THEN RemoveNodes(s2, {"tie0"}) ELSE s2

(* ---- named state -> indexed circuit in a topological order ---- *)
RECURSIVE TopoSeq(_,_,_)
TopoSeq(st, placed, acc) ==
  LET ready == {n \in st.nodes \ placed : FanIn(st, n) \subseteq placed} IN
  IF ready = {} THEN acc
  ELSE LET n == CHOOSE x \in ready : TRUE IN TopoSeq(st, placed \cup {n}, Append(acc, n))
Indexed(st) ==
  LET ord == TopoSeq(st, {}, <<>>)
      pos == [nm \in Range(ord) |-> CHOOSE q \in 1..Len(ord) : ord[q] = nm]
  IN [name |-> "model", n |-> Len(ord), names |-> ord,
      ty  |-> [q \in 1..Len(ord) |-> st.ty[ord[q]]],
      out |-> [q \in 1..Len(ord) |-> st.out[ord[q]]],
      fi  |-> [q \in 1..Len(ord) |-> LET F == FanIn(st, ord[q]) IN
                 [j \in 1..Cardinality(F) |-> CHOOSE p \in {pos[f] : f \in F} : Cardinality({x \in {pos[f] : f \in F} : x < p}) = j - 1]],
      bbs |-> <<>>, acyc |-> Len(ord) = Cardinality(st.nodes)]

\* the model's block for given parameters (named state)
ModelBlock(block, w, cin, cout) ==
  CASE block = "adder" -> Adder(w, cin, cout)
    [] block = "mux" -> Mux(w)
    [] block = "popcount" -> Popcount(w)
    [] block = "half_adder" -> HalfAdder
    [] block = "full_adder" -> FullAdder
=============================================================================

----------------------------- MODULE JudgeLogic -----------------------------
(***************************************************************************)
(* C13: generated arithmetic blocks compute the arithmetic they name.      *)
(* The generated circuit is evaluated by CGSem either on ALL input vectors *)
(* (patterns = integers, bit j <-> j-th free signal) or on a recorded list *)
(* of vectors (patterns = vector indices); the reference is arithmetic on  *)
(* bit sequences (no 32-bit limit).                                        *)
(*  e.c, e.block, e.w, e.cin, e.cout, e.inames (seq of input names),       *)
(*  e.vecs (seq of seq of 0/1 aligned with inames), e.lint_exc             *)
(***************************************************************************)
EXTENDS CGSem, CGLint, CGLogic

NameIdx(sq, nm) == CHOOSE q \in 1..Len(sq) : sq[q] = nm
Has(sq, nm) == \E q \in 1..Len(sq) : sq[q] = nm
\* bit of input nm in vector j (0 if the block has no such input)
InBit(e, j, nm) == IF Has(e.inames, nm) THEN e.vecs[j][NameIdx(e.inames, nm)] ELSE 0
\* value (0/1/2 for X) of node nm in vector j
OutBit(e, vals, j, nm) == LET v == vals[Idx(e.c, nm)] IN IF j \in v.one THEN 1 ELSE IF j \in v.x THEN 2 ELSE 0
Nm(p, i) == p \o ToString(i)

\* schoolbook addition on bits: returns sequence of w sum bits followed by the carry out
RECURSIVE AddFrom(_,_,_,_,_,_)
AddFrom(e, j, w, i, carry, acc) ==
  IF i >= w THEN Append(acc, carry)
  ELSE LET s == InBit(e, j, Nm("a_", i)) + InBit(e, j, Nm("b_", i)) + carry IN
       AddFrom(e, j, w, i + 1, s \div 2, Append(acc, s % 2))
RECURSIVE CountOnes(_,_,_,_,_)
CountOnes(e, j, w, i, acc) == IF i >= w THEN acc ELSE CountOnes(e, j, w, i + 1, acc + InBit(e, j, Nm("in_", i)))
RECURSIVE SelValue(_,_,_,_,_)
SelValue(e, j, nsel, i, acc) == IF i >= nsel THEN acc ELSE SelValue(e, j, nsel, i + 1, acc + InBit(e, j, Nm("sel_", i)) * (2^i))
RECURSIVE Clog2F(_,_,_)
Clog2F(n, sh, acc) == IF n > sh THEN Clog2F(n, 2 * sh, acc + 1) ELSE acc
Clog2(n) == Clog2F(n, 1, 0)

VecClauses(e, vals, j) ==
  LET w == e.w IN
  CASE e.block = "adder" ->
         LET ref == AddFrom(e, j, w, 0, IF e.cin THEN InBit(e, j, "cin") ELSE 0, <<>>) IN
         (IF \A i \in 0..(w-1) : OutBit(e, vals, j, Nm("out_", i)) = ref[i + 1] THEN {} ELSE {"adder_sum@vector" \o ToString(j)})
         \cup (IF ~e.cout \/ OutBit(e, vals, j, "cout") = ref[w + 1] THEN {} ELSE {"adder_carry_out@vector" \o ToString(j)})
    [] e.block = "half_adder" ->
         LET s == InBit(e, j, "x") + InBit(e, j, "y") IN
         IF OutBit(e, vals, j, "s") = s % 2 /\ OutBit(e, vals, j, "c") = s \div 2 THEN {} ELSE {"half_adder@vector" \o ToString(j)}
    [] e.block = "full_adder" ->
         LET s == InBit(e, j, "x") + InBit(e, j, "y") + InBit(e, j, "cin") IN
         IF OutBit(e, vals, j, "s") = s % 2 /\ OutBit(e, vals, j, "cout") = s \div 2 THEN {} ELSE {"full_adder@vector" \o ToString(j)}
    [] e.block = "mux" ->
         LET sel == SelValue(e, j, Clog2(w), 0, 0)
             want == IF sel < w THEN InBit(e, j, Nm("in_", sel)) ELSE 0
         IN IF OutBit(e, vals, j, "out") = want THEN {} ELSE {"mux_out@vector" \o ToString(j)}
    [] e.block = "popcount" ->
         \* the outputs out_0, out_1, ... read as a binary number give the count (unused high bits are 0)
         LET cnt == CountOnes(e, j, w, 0, 0)
             outs == {i \in 0..31 : HasName(e.c, Nm("out_", i))}
         IN IF (\A i \in outs : OutBit(e, vals, j, Nm("out_", i)) = (cnt \div (2^i)) % 2)
               /\ (\A i \in 0..(Clog2(w + 1) - 1) : i \in outs)
            THEN {} ELSE {"popcount@vector" \o ToString(j)}
    [] OTHER -> {"MACHINERY:unknown_block"}

ExpectedIO(e) ==
  LET w == e.w IN
  CASE e.block = "adder" -> [ins |-> {Nm("a_", i) : i \in 0..(w-1)} \cup {Nm("b_", i) : i \in 0..(w-1)} \cup (IF e.cin THEN {"cin"} ELSE {}),
                             outs |-> {Nm("out_", i) : i \in 0..(w-1)} \cup (IF e.cout THEN {"cout"} ELSE {})]
    [] e.block = "half_adder" -> [ins |-> {"x", "y"}, outs |-> {"s", "c"}]
    [] e.block = "full_adder" -> [ins |-> {"x", "y", "cin"}, outs |-> {"s", "cout"}]
    [] e.block = "mux" -> [ins |-> {Nm("in_", i) : i \in 0..(w-1)} \cup {Nm("sel_", i) : i \in 0..(Clog2(w)-1)}, outs |-> {"out"}]
    [] e.block = "popcount" -> [ins |-> {Nm("in_", i) : i \in 0..(w-1)},
                                outs |-> {Nm("out_", i) : i \in {k \in 0..31 : HasName(e.c, Nm("out_", k))}}]

Judge_logic(e) ==
  IF e.exc # "" THEN {"raised:" \o e.exc} ELSE
  LET c == e.c
      V == 1..Len(e.vecs)
      cols == [nm \in Range(e.inames) |-> {j \in V : e.vecs[j][NameIdx(e.inames, nm)] = 1}]
      io == ExpectedIO(e)
  IN (IF WellFormedRec(c) /\ c.acyc /\ IsTopo(c) THEN {} ELSE {"MACHINERY:malformed_or_cyclic"})
     \cup (IF InputNames(c) = io.ins THEN {} ELSE {"block_inputs"})
     \cup (IF OutputNames(c) = io.outs THEN {} ELSE {"block_outputs"})
     \cup (IF LintClean(c) THEN {} ELSE {"block_not_lint_clean"})
     \cup (IF e.lint_exc = "" THEN {} ELSE {"cg_lint_rejects_block"})
     \cup (IF e.w <= 3 /\ WellFormedRec(c) /\ ToNamed(c) # ModelBlock(e.block, e.w, e.cin, e.cout)
           THEN {"DRIFT:block_differs_from_as_built_generator_model"} ELSE {})
     \cup (IF ~(WellFormedRec(c) /\ c.acyc /\ IsTopo(c)) \/ FreeNames(c) # Range(e.inames) \/ InputNames(c) # io.ins \/ OutputNames(c) # io.outs
           THEN (IF FreeNames(c) = Range(e.inames) THEN {}
                 ELSE IF Range(e.inames) = InputNames(c) THEN {"block_has_undriven_nodes"} ELSE {"MACHINERY:input_names_hint"})
           ELSE LET vals == Eval(c, V, FvByName(c, cols)) IN UNION {VecClauses(e, vals, j) : j \in V})

(* helpers: e.n_bits little-endian bits of n (n >= 1), e.res the returned int *)
BitLen(bits) == IF \E q \in 1..Len(bits) : bits[q] = 1 THEN Max({q \in 1..Len(bits) : bits[q] = 1}) ELSE 0
Judge_clog2(e) ==
  IF e.exc # "" THEN {"raised:" \o e.exc} ELSE
  LET L == BitLen(e.n_bits)
      pow2 == Cardinality({q \in 1..Len(e.n_bits) : e.n_bits[q] = 1}) = 1
      want == IF pow2 THEN L - 1 ELSE L          \* least k with 2^k >= n
  IN IF e.res = want THEN {} ELSE {"clog2"}
(* int_to_bin / bin_to_int: e.i_bits (little-endian bits of i), e.w, e.lend, e.res (seq of 0/1 as returned), e.back_bits *)
Judge_int_to_bin(e) ==
  IF e.exc # "" THEN {"raised:" \o e.exc} ELSE
  LET L == BitLen(e.i_bits)
      n == Len(e.res)
      lsb(q) == IF e.lend THEN e.res[q] ELSE e.res[n + 1 - q]      \* q-th least significant bit of the result
      ibit(q) == IF q <= Len(e.i_bits) THEN e.i_bits[q] ELSE 0
  IN (IF n >= e.w /\ n >= L THEN {} ELSE {"int_to_bin_too_short"})
     \cup (IF \A q \in 1..n : lsb(q) = ibit(q) THEN {} ELSE {"int_to_bin_bits"})
     \cup (IF \A q \in 1..(IF Len(e.back_bits) > Len(e.i_bits) THEN Len(e.back_bits) ELSE Len(e.i_bits)) :
                (IF q <= Len(e.back_bits) THEN e.back_bits[q] ELSE 0) = ibit(q) THEN {} ELSE {"bin_to_int_round_trip"})
=============================================================================

------------------------------ MODULE MCDepth ------------------------------
(***************************************************************************)
(* As-built model of Circuit.fanout_depth (fanin_depth is its mirror       *)
(* image): a recursive visit that records the largest depth seen for each  *)
(* node and descends through a node only once every one of its reachable   *)
(* fan-in nodes has been visited.  Python's recursion is modelled with an  *)
(* explicit stack; the iteration order of every fan-out set is arbitrary.  *)
(* Checked on every DAG shape with <= 5 nodes, every start node, every     *)
(* visiting order: at termination the maximum recorded depth is the        *)
(* longest path from the start node (CGGraph!LongestFrom).                 *)
(***************************************************************************)
EXTENDS CGGraph, CGFamilies

VARIABLES g, start, visited, stack
vars == <<g, start, visited, stack>>

Fo(i) == FoSet(g, i)
Reachable == Desc(g, {start})
Init == /\ g \in DAG4(0) \cup DAG5(0)
        /\ start \in 1..g.n
        /\ visited = [i \in 1..g.n |-> IF i = start THEN 0 ELSE -1]
        /\ stack = << [n |-> 0, todo |-> FoSet(g, start)] >>
Top == stack[Len(stack)]
Pop == /\ stack # <<>> /\ Top.todo = {}
       /\ stack' = SubSeq(stack, 1, Len(stack) - 1)
       /\ UNCHANGED <<g, start, visited>>
Visit == /\ stack # <<>> /\ Top.todo # {}
         /\ \E f \in Top.todo :
              LET depth == IF Top.n = 0 THEN 1 ELSE visited[Top.n] + 1
                  nv == [visited EXCEPT ![f] = IF visited[f] = -1 THEN depth ELSE IF visited[f] > depth THEN visited[f] ELSE depth]
                  rest == [stack EXCEPT ![Len(stack)].todo = Top.todo \ {f}]
                  ready == \A p \in FiSet(g, f) \cap Reachable : nv[p] # -1
              IN /\ visited' = nv
                 /\ stack' = IF ready THEN Append(rest, [n |-> f, todo |-> Fo(f)]) ELSE rest
         /\ UNCHANGED <<g, start>>
Next == Pop \/ Visit
Spec == Init /\ [][Next]_vars
Done == stack = <<>>
DepthIsLongestPath == Done => Max({visited[i] : i \in 1..g.n}) = LongestFrom(g)[start]
\* every node reachable from the start ends up with its longest distance from the start
AllReachedVisited == Done => \A i \in Reachable : visited[i] # -1
=============================================================================

------------------------------ MODULE CGTxLoops ------------------------------
(***************************************************************************)
(* As-built models of the transforms whose loops iterate over Python sets  *)
(* or break ties by iteration order: the result is not a function of the   *)
(* argument but one of a SET of possible results.  Each model is written   *)
(* as the same sequence of construction-API calls the Python code makes    *)
(* (run on the API model CGApi), with every order-dependent choice made    *)
(* explicit:                                                               *)
(*   FasOrderings / FasNodeSets : approx_min_fas inside tx.acyclic_unroll  *)
(*        (sinks, sources, then ANY node of maximal out-in degree);        *)
(*   AcyclicUnrollModel(c, F)   : the rest of acyclic_unroll for a given   *)
(*        feedback-node set F;                                             *)
(*   LimitFanoutResults(c, k)   : tx.limit_fanout - ANY two loads are      *)
(*        moved behind a new buffer while a node drives more than k;       *)
(*   InsertRegistersModel       : tx.insert_registers (deterministic up to *)
(*        uid naming; Python's round-half-even for the stage distance).    *)
(* MCFas / MCLoops check the properties C18 / C05 on every possible model  *)
(* result; JudgeTx reports MODEL-DRIFT when the circuit the real function  *)
(* returned is not among the model's results.                              *)
(***************************************************************************)
EXTENDS CGTxApi

(* ---- approx_min_fas(g) ---- *)
OutDegIn(E, R, n) == Cardinality({e \in E : e[1] = n /\ e[2] \in R})
InDegIn(E, R, n)  == Cardinality({e \in E : e[2] = n /\ e[1] \in R})
RECURSIVE StripSinks(_,_,_), StripSources(_,_,_)
\* the nodes of one batch have no edges between them: their relative order does not matter
StripSinks(E, R, s2) ==
  LET S == {n \in R : OutDegIn(E, R, n) = 0} IN
  IF S = {} THEN [rem |-> R, s |-> s2] ELSE StripSinks(E, R \ S, s2 \o SetToSeqApi(S))
StripSources(E, R, s1) ==
  LET S == {n \in R : InDegIn(E, R, n) = 0} IN
  IF S = {} THEN [rem |-> R, s |-> s1] ELSE StripSources(E, R \ S, s1 \o SetToSeqApi(S))
RevSeq(s) == [j \in 1..Len(s) |-> s[Len(s) + 1 - j]]
MaxDelta(E, R) == {n \in R : \A m \in R : OutDegIn(E, R, m) - InDegIn(E, R, m) <= OutDegIn(E, R, n) - InDegIn(E, R, n)}
RECURSIVE FasOrderings(_,_,_,_)
FasOrderings(E, R, s1, s2) ==
  IF R = {} THEN {s1 \o RevSeq(s2)}
  ELSE LET a == StripSinks(E, R, s2)
           b == StripSources(E, a.rem, s1)
       IN IF b.rem = {} THEN {b.s \o RevSeq(a.s)}
          ELSE UNION {FasOrderings(E, b.rem \ {n}, Append(b.s, n), a.s) : n \in MaxDelta(E, b.rem)}
RECURSIVE DescOf(_,_)
DescOf(E, S) == LET T == S \cup {e[2] : e \in {x \in E : x[1] \in S}} IN IF T = S THEN S ELSE DescOf(E, T)
Descendants(E, v) == DescOf(E, {e[2] : e \in {x \in E : x[1] = v}})
PosIn(ord, n) == CHOOSE q \in 1..Len(ord) : ord[q] = n
FeedbackEdges(E, ord) == {e \in E : PosIn(ord, e[1]) > PosIn(ord, e[2]) /\ e[1] \in Descendants(E, e[2])}
AcyclicEdges(N, E) == \A n \in N : n \notin Descendants(E, n)
FasEdgeSets(st) == {FeedbackEdges(st.edges, o) : o \in FasOrderings(st.edges, st.nodes, <<>>, <<>>)}
FasNodeSets(st) == {{e[1] : e \in F} : F \in FasEdgeSets(st)}

(* ---- acyclic_unroll(c) after the feedback nodes F are known ---- *)
StartpointsOf(c) == {x \in c.nodes : c.ty[x] \in {"input", "bb_output"}}
RECURSIVE CutFeedback(_,_,_)
CutFeedback(st, c, F) ==
  IF F = {} THEN st
  ELSE LET f == CHOOSE x \in F : TRUE
           fo == SetToSeqApi(FanOut(c, f))
           s1 == DisconnectRes(st, <<f>>, fo).st
       IN CutFeedback(AddN(s1, "aux_in_" \o f, "buf", <<>>, fo, FALSE), c, F \ {f})
RECURSIVE SpConns(_)
SpConns(S) == IF S = {} THEN <<>> ELSE LET x == CHOOSE y \in S : TRUE IN <<Cn1(x, x)>> \o SpConns(S \ {x})
RECURSIVE AddInputs(_,_), ChainFeedback(_,_,_), OutputsOf(_,_,_,_)
AddInputs(st, S) == IF S = {} THEN st ELSE LET x == CHOOSE y \in S : TRUE IN AddInputs(AddN(st, x, "input", <<>>, <<>>, FALSE), S \ {x})
CopyName(i, n) == "c" \o ToString(i) \o "_" \o n
ChainFeedback(st, F, i) ==
  IF F = {} THEN st
  ELSE LET f == CHOOSE x \in F : TRUE
           s1 == IF i > 0 THEN Conn1(st, CopyName(i - 1, f), CopyName(i, "aux_in_" \o f))
                 ELSE SetTypeRes(st, <<CopyName(0, "aux_in_" \o f)>>, "input").st
       IN ChainFeedback(s1, F \ {f}, i)
RECURSIVE Copies(_,_,_,_,_)
Copies(st, cut, sp, F, i) ==
  IF i > Cardinality(F) THEN st
  ELSE Copies(ChainFeedback(SubC(st, cut, "c" \o ToString(i), SpConns(sp)), F, i), cut, sp, F, i + 1)
OutputsOf(st, O, sp, last) ==
  IF O = {} THEN st
  ELSE LET o == CHOOSE x \in O : TRUE
           s1 == IF o \in sp THEN SetOutputRes(st, <<o>>, TRUE).st
                 ELSE AddN(st, o, "buf", <<CopyName(last, o)>>, <<>>, TRUE)
       IN OutputsOf(s1, O \ {o}, sp, last)
AcyclicUnrollModel(c, F) ==
  LET sp == StartpointsOf(c)
      s0 == AddInputs(EmptySt, sp)
      cut0 == CutFeedback(c, c, F)
      cut == [cut0 EXCEPT !.out = [x \in cut0.nodes |-> FALSE]]
      s1 == Copies(s0, cut, sp, F, 0)
  IN OutputsOf(s1, ScOutputs(c), sp, Cardinality(F))

(* ---- limit_fanout(c, k): the set of possible results ---- *)
LfSplit(st, n, f0, f1, i) ==
  LET s1 == DisconnectRes(st, <<n>>, <<f0, f1>>).st
  IN AddRes(s1, n \o "_limit_fanout_" \o ToString(i), "buf", <<n>>, <<f0, f1>>, FALSE, TRUE).st
RECURSIVE LfNode(_,_,_,_)
LfNode(st, n, k, i) ==
  LET fo == FanOut(st, n) IN
  IF Cardinality(fo) <= k THEN {st}
  ELSE UNION {LfNode(LfSplit(st, n, pr[1], pr[2], i), n, k, i + 1) : pr \in {q \in fo \X fo : q[1] # q[2]}}
RECURSIVE LfAll(_,_,_)
LfAll(S, nodes, k) ==
  IF nodes = {} THEN S
  ELSE LET n == CHOOSE x \in nodes : TRUE IN LfAll(UNION {LfNode(st, n, k, 0) : st \in S}, nodes \ {n}, k)
LimitFanoutResults(c, k) == LfAll({c}, c.nodes, k)
MaxFanoutOf(c) == Max({0} \cup {Cardinality(FanOut(c, n)) : n \in c.nodes})

(* ---- insert_registers(c, stages, ff, d, q, other) ---- *)
RECURSIVE DepthTo(_,_)
DepthTo(c, n) == IF FanIn(c, n) = {} THEN 0 ELSE 1 + Max({DepthTo(c, p) : p \in FanIn(c, n)})
\* Python 3 round(a / b) for naturals a, b > 0: ties go to the even neighbour
RoundDiv(a, b) == LET q == a \div b  r == a % b IN
                  IF 2 * r < b THEN q ELSE IF 2 * r > b THEN q + 1 ELSE IF q % 2 = 0 THEN q ELSE q + 1
\* other : sequence of <<net, pin>>;  ff = [type, ins, outs]
RECURSIVE RegNodes(_,_,_,_,_,_,_,_)
RegNodes(st, S, i, ff, d, q, other, qs) ==
  IF S = {} THEN st
  ELSE LET n == CHOOSE x \in S : TRUE
           fo == SetToSeqApi(FanOut(st, n))
           s1 == DisconnectRes(st, <<n>>, fo).st
           r  == AddRes(s1, n \o qs \o ToString(i), "buf", <<>>, fo, FALSE, TRUE)
           conns == << <<d, <<n>>>>, <<q, <<r.ret>>>> >> \o [j \in 1..Len(other) |-> <<other[j][2], <<other[j][1]>>>>]
           s2 == AddBlackboxRes(r.st, ff, "ff_" \o n, SetToSeqApi(ff.ins), SetToSeqApi(ff.outs), conns).st
       IN RegNodes(s2, S \ {n}, i, ff, d, q, other, qs)
RECURSIVE RegLevels(_,_,_,_,_,_,_,_,_,_)
RegLevels(st, c, i, inc, maxd, ff, d, q, other, qs) ==
  IF i >= maxd THEN st
  ELSE RegLevels(RegNodes(st, {n \in c.nodes : DepthTo(c, n) = i}, i, ff, d, q, other, qs), c, i + inc, inc, maxd, ff, d, q, other, qs)
RECURSIVE AddOther(_,_,_)
AddOther(st, other, j) == IF j > Len(other) THEN st
                          ELSE AddOther(IF other[j][1] \in st.nodes THEN st ELSE AddN(st, other[j][1], "input", <<>>, <<>>, FALSE), other, j + 1)
\* [ok, st]: ok = FALSE stands for the ValueError of range(0, max, 0)
InsertRegistersModelQ(c, stages, ff, d, q, other, qs) ==
  LET maxd == Max({0} \cup {DepthTo(c, n) : n \in c.nodes})
      inc == RoundDiv(maxd, stages + 1)
      s0 == AddOther(c, other, 1)
  IN IF inc = 0 THEN [ok |-> FALSE, st |-> c]
     ELSE [ok |-> TRUE, st |-> RegLevels(s0, c, inc, inc, maxd, ff, d, q, other, qs)]
InsertRegistersModel(c, stages, ff, d, q, other) == InsertRegistersModelQ(c, stages, ff, d, q, other, "_cg_insert_reg_q_")

(* ---- named state -> indexed circuit, blackbox registry kept ---- *)
IndexedB(st) ==
  [Indexed(st) EXCEPT !.bbs = LET B == SetToSeqApi(DOMAIN st.bbs) IN
     [j \in 1..Len(B) |-> [inst |-> B[j], type |-> st.bbs[B[j]].type,
                           ins |-> SetToSeqApi(st.bbs[B[j]].ins), outs |-> SetToSeqApi(st.bbs[B[j]].outs)]]]
=============================================================================

INIT Init
NEXT Next
INVARIANT Exact
INVARIANT VarsDistinct

SPECIFICATION SpecConn
INVARIANT TypeOK
INVARIANT LegalWiring
CONSTRAINT Depth2
CHECK_DEADLOCK FALSE

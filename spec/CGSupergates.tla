----------------------------- MODULE CGSupergates -----------------------------
(***************************************************************************)
(* As-built model of tx.supergates(c) for circuits whose gates already     *)
(* have at most two operands (limit_fanin(c, 2) is then a plain copy).     *)
(* Per output o:                                                           *)
(*   cone    = sub-circuit of the transitive fan-in of o, o the only       *)
(*             output;                                                     *)
(*   G       = every edge reversed, plus every forward edge that does not  *)
(*             enter o;                                                    *)
(*   idom    = immediate dominators of G from o (computed here from the    *)
(*             definition: d dominates n iff every path o ->* n meets d);  *)
(*   a block = a head h, its dominator-tree children, and below a child    *)
(*             with exactly ONE child that child too (repeatedly); a       *)
(*             visited node with more than one child becomes the head of a *)
(*             block of its own;                                           *)
(*   circuit = subcircuit(cone, block, modify_io=True), h marked output.   *)
(* The blocks of all outputs are collected; a block found again under      *)
(* another output (same head, same nodes) is the same block; a block is    *)
(* kept when                                                               *)
(* some node of it is internal to no OTHER block; kept blocks are stored   *)
(* in a dict keyed by `block.outputs().pop()`, so of several blocks with   *)
(* the same key one arbitrary survives.  SupergateResults(c) is the set of *)
(* block sets the function can return; the list form orders one of them    *)
(* topologically (raises when the block graph is cyclic).                  *)
(***************************************************************************)
EXTENDS CGTxLoops

SubcircuitModel(c, N, modifyIo) ==
  LET r == Restrict(c, N) IN
  IF ~modifyIo THEN r
  ELSE [r EXCEPT !.ty  = [x \in N |-> IF r.ty[x] \notin {"0", "1", "x"} /\ FanIn(r, x) = {} THEN "input" ELSE r.ty[x]],
                 !.out = [x \in N |-> r.out[x] \/ FanOut(r, x) = {}]]

SgCone(c, o) == LET N == BackClose(c, {o})  r == Restrict(c, N) IN [r EXCEPT !.out = [x \in N |-> x = o]]
SgGraph(co, o) == {<<e[2], e[1]>> : e \in co.edges} \cup {e \in co.edges : e[2] # o}
RECURSIVE ReachAvoid(_,_,_)
ReachAvoid(G, S, d) == LET T == S \cup {e[2] : e \in {x \in G : x[1] \in S /\ x[2] # d}} IN IF T = S THEN S ELSE ReachAvoid(G, T, d)

RECURSIVE SgChain(_,_), SgHeads(_,_,_)
SgChain(kids, Q) == Q \cup UNION {IF Cardinality(kids[f]) = 1 THEN SgChain(kids, kids[f]) ELSE {} : f \in Q}
SgExpansion(kids, h) == {h} \cup SgChain(kids, kids[h])
SgHeads(kids, H, o) ==
  LET H2 == H \cup {f \in UNION {SgExpansion(kids, h) \ {h} : h \in H} : Cardinality(kids[f]) > 1}
  IN IF H2 = H THEN H ELSE SgHeads(kids, H2, o)
\* blocks found under output o : set of [o, h, sg]
SgBlocksOf(c, o) ==
  LET co == SgCone(c, o)
      N == co.nodes
      G == SgGraph(co, o)
      avoid == [d \in N |-> IF d = o THEN {o} ELSE ReachAvoid(G, {o}, d)]
      dom == [n \in N |-> IF n = o THEN {} ELSE {d \in N \ {n} : d = o \/ n \notin avoid[d]}]
      idom == [n \in N \ {o} |-> CHOOSE d \in dom[n] : dom[n] \ {d} = dom[d]]
      kids == [v \in N |-> {n \in N \ {o} : idom[n] = v}]
  IN {[o |-> o, h |-> h, sg |-> [SubcircuitModel(co, SgExpansion(kids, h), TRUE) EXCEPT !.out[h] = TRUE]] : h \in SgHeads(kids, {o}, o)}
\* equal blocks (same head, same node set, hence the same circuit) found under different outputs are ONE block (fix 8e4f98c;
\* before it they were distinct objects and cancelled each other in the cover filter: SgAllBlocksOld)
SgAllBlocksOld(c) == UNION {SgBlocksOf(c, o) : o \in ScOutputs(c)}
SgAllBlocks(c) == {[o |-> "", h |-> b.h, sg |-> b.sg] : b \in SgAllBlocksOld(c)}
SgInternalOf(sg) == sg.nodes \ ScInputs(sg)
SgMinimal(c) == LET B == SgAllBlocks(c) IN
                {b \in B : b.sg.nodes \ UNION {SgInternalOf(b2.sg) : b2 \in B \ {b}} # {}}
\* the dict keyed by an arbitrary output of each block: one arbitrary block per key
SupergateResults(c) ==
  LET M == SgMinimal(c)
      Keyings == IF \A b \in M : Cardinality(ScOutputs(b.sg)) = 1
                 THEN {[b \in M |-> CHOOSE x \in ScOutputs(b.sg) : TRUE]}
                 ELSE {k \in [M -> UNION {ScOutputs(b.sg) : b \in M}] : \A b \in M : k[b] \in ScOutputs(b.sg)}
  IN UNION { {R \in SUBSET M : /\ {k[b] : b \in R} = {k[b] : b \in M}
                              /\ \A b1 \in R, b2 \in R : k[b1] = k[b2] => b1 = b2} : k \in Keyings }
\* any producer-before-consumer order of a block set; <<>> when the block graph is cyclic (the code raises)
RECURSIVE SgTopo(_,_,_,_)
SgTopo(c, R, placed, acc) ==
  IF R = {} THEN acc
  ELSE LET ready == {b \in R : \A i \in ScInputs(b.sg) \ ScInputs(c) :
                                  \A p \in (R \cup placed) \ {b} : i \in SgInternalOf(p.sg) => p \in placed}
       IN IF ready = {} THEN <<>>
          ELSE LET b == CHOOSE x \in ready : TRUE IN SgTopo(c, R \ {b}, placed \cup {b}, Append(acc, b))
=============================================================================

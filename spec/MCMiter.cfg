INIT InitMiter
NEXT Next
INVARIANT MiterOK

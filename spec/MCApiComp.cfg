SPECIFICATION SpecComp
INVARIANT TypeOK
INVARIANT LegalWiring
INVARIANT BBConsistent
PROPERTY RejectedAddsNoEdge
CONSTRAINT Depth2
CHECK_DEADLOCK FALSE

------------------------------ MODULE CGBenchIO ------------------------------
(***************************************************************************)
(* As-built models of the bench writer and reader (same abstract syntax as *)
(* CGNetlist).                                                             *)
(*   BenchWriterProgram(c, ci): one statement per non-input node; constant *)
(*        0 / 1 is written XOR(ci, ci) / XNOR(ci, ci) over ONE primary     *)
(*        input ci (`c.inputs().pop()`: any of them; no input -> KeyError). *)
(*   BenchReaderResults(p): the reader gives every REPEATED operand of a   *)
(*        parity gate a buffer <net>_dup (uid: _dup, _dup_0, _dup_1 ... in  *)
(*        the order the gates appear in the text, which the program does   *)
(*        not fix - hence a set of results; names of nets that occur in    *)
(*        the text are skipped); a DFF is a buffer net plus an             *)
(*        instance <net>_dff of blackbox dff(D; Q).                        *)
(***************************************************************************)
EXTENDS CGVerilogIO

BenchWriterProgram(c, ci) ==
  LET item(i) == IF c.ty[i] = "0" THEN << [k |-> "gate", t |-> "xor",  out |-> c.names[i], ins |-> << <<"$" \o ci>>, <<"$" \o ci>> >>] >>
                 ELSE IF c.ty[i] = "1" THEN << [k |-> "gate", t |-> "xnor", out |-> c.names[i], ins |-> << <<"$" \o ci>>, <<"$" \o ci>> >>] >>
                 ELSE IF c.ty[i] \in Gates THEN << [k |-> "gate", t |-> c.ty[i], out |-> c.names[i],
                                                    ins |-> [q \in 1..Len(c.fi[i]) |-> <<"$" \o c.names[c.fi[i][q]]>>]] >>
                 ELSE <<>>
      RECURSIVE Items(_)
      Items(i) == IF i > c.n THEN <<>> ELSE item(i) \o Items(i + 1)
  IN [name |-> c.name, ports |-> <<>>, inputs |-> NameSeq(c, Inputs(c)), outputs |-> NameSeq(c, Outputs(c)),
      items |-> Items(1), bbtypes |-> << [type |-> "dff", ins |-> <<"D">>, outs |-> <<"Q">>] >>]

IsParityGate(it) == it.k = "gate" /\ it.t \in {"xor", "xnor"}
RepeatPositions(it) == {q \in 1..Len(it.ins) : \E q2 \in 1..(q - 1) : it.ins[q2] = it.ins[q]}
DupGates(p) == {j \in 1..Len(p.items) : IsParityGate(p.items[j]) /\ RepeatPositions(p.items[j]) # {}}
UidCand(base, k) == IF k = 0 THEN base ELSE base \o "_" \o UidSuffix(k)
\* uid(base, blocked): the first of base, base_0, base_1, ... that is neither a node yet nor a net named anywhere in the text
RECURSIVE FirstFree(_,_,_)
FirstFree(base, taken, k) == IF k > MaxUidTries THEN base \o "_overflow"
                             ELSE IF UidCand(base, k) \in taken THEN FirstFree(base, taken, k + 1) ELSE UidCand(base, k)
BenchNets(p) == DrivenNets(p) \cup FreeNets(p) \cup Range(p.outputs)
                \cup UNION {UNION {ExprNets(p.items[j].ins[q]) : q \in 1..Len(p.items[j].ins)} : j \in {x \in 1..Len(p.items) : p.items[x].k = "gate"}}
\* names handed out while the gates with repeats are read in the order `ord`
RECURSIVE DupAssign(_,_,_,_,_)
DupAssign(p, ord, g, used, A) ==
  IF g > Len(ord) THEN A
  ELSE LET j == ord[g]
           it == p.items[j]
           RECURSIVE Pos(_,_,_)
           Pos(q, u2, A2) ==
             IF q > Len(it.ins) THEN [used |-> u2, A |-> A2]
             ELSE IF q \notin RepeatPositions(it) THEN Pos(q + 1, u2, A2)
             ELSE LET b == IdOf(it.ins[q][1])
                      nm == FirstFree(b \o "_dup", u2 \cup BenchNets(p), 0)
                  IN Pos(q + 1, u2 \cup {nm}, (<<j, q>> :> nm) @@ A2)
           r == Pos(1, used, A)
       IN DupAssign(p, ord, g + 1, r.used, r.A)
PermsOf(S) == {s \in [1..Cardinality(S) -> S] : \A a, b \in 1..Cardinality(S) : a # b => s[a] # s[b]}
DupAssignments(p) == {DupAssign(p, ord, 1, {}, <<>>) : ord \in PermsOf(DupGates(p))}
BenchBuild(p, A) ==
  LET gates == {j \in 1..Len(p.items) : p.items[j].k = "gate"}
      dffs  == {j \in 1..Len(p.items) : p.items[j].k = "bb"}
      conn(j, pn) == LET q == CHOOSE x \in 1..Len(p.items[j].conns) : p.items[j].conns[x][1] = pn IN IdOf(p.items[j].conns[q][2][1])
      dups == {A[k] : k \in DOMAIN A}
      base(d) == LET k == CHOOSE x \in DOMAIN A : A[x] = d IN IdOf(p.items[k[1]].ins[k[2]][1])
      N == Range(p.inputs) \cup {p.items[j].out : j \in gates} \cup dups
           \cup UNION {{conn(j, "Q"), conn(j, "D"), Pin(p.items[j].inst, "D"), Pin(p.items[j].inst, "Q")} : j \in dffs}
      tyOf(x) == IF x \in Range(p.inputs) THEN "input"
                 ELSE IF \E j \in dffs : x = Pin(p.items[j].inst, "D") THEN "bb_input"
                 ELSE IF \E j \in dffs : x = Pin(p.items[j].inst, "Q") THEN "bb_output"
                 ELSE IF \E j \in gates : p.items[j].out = x THEN p.items[CHOOSE j \in gates : p.items[j].out = x].t
                 ELSE "buf"
      src(j, q) == IF <<j, q>> \in DOMAIN A THEN A[<<j, q>>] ELSE IdOf(p.items[j].ins[q][1])
      E == UNION {{<<src(j, q), p.items[j].out>> : q \in 1..Len(p.items[j].ins)} : j \in gates}
           \cup {<<base(d), d>> : d \in dups}
           \cup UNION {{<<conn(j, "D"), Pin(p.items[j].inst, "D")>>, <<Pin(p.items[j].inst, "Q"), conn(j, "Q")>>} : j \in dffs}
  IN [nodes |-> N, ty |-> [x \in N |-> tyOf(x)], out |-> [x \in N |-> x \in Range(p.outputs)], edges |-> E,
      bbs |-> [b \in {p.items[j].inst : j \in dffs} |-> [type |-> "dff", ins |-> {"D"}, outs |-> {"Q"}]]]
BenchReaderResults(p) == {BenchBuild(p, A) : A \in DupAssignments(p)}
\* programs the model speaks about: plain nets as operands, one driver per net, every operand driven, no net called *_dup*
HasDup(x) == \E q \in 1..Len(x) : q + 3 <= Len(x) /\ SubSeq(x, q, q + 3) = "_dup"
BenchModelApplies(p) ==
  /\ \A j \in 1..Len(p.items) : LET it == p.items[j] IN
        CASE it.k = "gate" -> \A q \in 1..Len(it.ins) : Len(it.ins[q]) = 1 /\ IsId(it.ins[q][1])
          [] it.k = "bb"   -> Len(it.conns) = 2 /\ \A q \in 1..2 : Len(it.conns[q][2]) = 1 /\ IsId(it.conns[q][2][1])
          [] OTHER -> FALSE
  /\ Cardinality(DrivenNets(p)) = Cardinality({j \in 1..Len(p.items) : p.items[j].k = "gate"})
  /\ DrivenNets(p) \cap FreeNets(p) = {}
  /\ \A j \in 1..Len(p.items) : p.items[j].k = "gate" =>
        \A q \in 1..Len(p.items[j].ins) : IdOf(p.items[j].ins[q][1]) \in DrivenNets(p) \cup FreeNets(p)
  /\ Cardinality(DupGates(p)) <= 3
DriftBenchParse(e) ==
  IF "dialect" \in DOMAIN e /\ e.dialect = "bench" /\ e.exc = "" /\ WellFormedRec(e.r) /\ e.r.n <= 18 /\ BenchModelApplies(e.p)
     /\ ToNamed(e.r) \notin BenchReaderResults(e.p)
  THEN {"DRIFT:bench_circuit_differs_from_reader_model"} ELSE {}
DriftBenchRoundTrip(e) ==
  IF e.exc = "" /\ WellFormedRec(e.c) /\ WellFormedRec(e.c2) /\ e.c.n <= 14 /\ Len(e.c.bbs) = 0 /\ Inputs(e.c) # {}
     /\ Cardinality(OfType(e.c, {"0", "1"})) <= 3
     /\ ToNamed(e.c2) \notin UNION {BenchReaderResults(BenchWriterProgram(e.c, ci)) : ci \in InputNames(e.c)}
  THEN {"DRIFT:bench_circuit_read_back_differs_from_reader_model_of_writer_model"} ELSE {}
=============================================================================

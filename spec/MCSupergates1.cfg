INIT Init1
NEXT Next
INVARIANT SupergatesOK

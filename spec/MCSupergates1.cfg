INIT Init1
NEXT Next
INVARIANT SupergatesOK
CHECK_DEADLOCK FALSE

INIT InitS
NEXT Next
INVARIANT SupergatesOK
CHECK_DEADLOCK FALSE

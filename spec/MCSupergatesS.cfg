INIT InitS
NEXT Next
INVARIANT SupergatesOK

------------------------------ MODULE MCTxApi ------------------------------
(***************************************************************************)
(* Model checking of the as-built miter and unroll models (CGTxApi): the   *)
(* property relations of C04 and C09 (JudgeTx) hold on the models' results *)
(* for every pair / circuit of a small family and every choice of tied     *)
(* startpoints, compared endpoints, state pairing and number of steps.     *)
(***************************************************************************)
EXTENDS JudgeTx, CGFamilies, IOUtils

Strip(f) == {x \in f : ~HasPrefix(x, "DRIFT:")}
SeqOf(S) == LET RECURSIVE Sq(_) Sq(T) == IF T = {} THEN <<>> ELSE LET x == CHOOSE y \in T : TRUE IN <<x>> \o Sq(T \ {x}) IN Sq(S)

(* ---- miter ---- *)
MFam == {c \in NoX(G1(0)) : c.ty[c.n] \in {"and", "xor", "nor", "buf", "not"} /\ Len(c.fi[c.n]) <= 2
                            /\ NameSet(c) \subseteq {"i1", "i2", "k1", "g"}}
VARIABLES kind, c0, c1, S, E, n, sio
vars == <<kind, c0, c1, S, E, n, sio>>
InitMiter == /\ kind = "miter" /\ n = 0 /\ sio = {}
             /\ c0 \in MFam /\ c1 \in MFam
             /\ S \in SUBSET (InputNames(c0) \cap InputNames(c1))
             /\ E = {"g"}
MiterEvent == [c0 |-> c0, c1 |-> c1, s_given |-> TRUE, S |-> SeqOf(S), e_given |-> TRUE, E |-> SeqOf(E), exc |-> "",
               m |-> Indexed(MiterModel(ToNamed(c0), ToNamed(c1), S, E))]
MiterOK == kind = "miter" => Strip(Judge_miter(MiterEvent)) = {}

(* ---- unroll ---- *)
Full == "MC_FULL" \in DOMAIN IOEnv
UFam == {c \in G2ok(0) : c.ty[4] \in {"and", "xor", "not"} /\ c.ty[5] \in {"and", "xor", "not"}
                         /\ (Full \/ (Len(c.fi[4]) <= 2 /\ Len(c.fi[5]) <= 2))}
Pairings(c) == {{}} \cup {{<<o, i>>} : o \in OutputNames(c), i \in InputNames(c)}
                    \cup (IF Cardinality(OutputNames(c)) = 2
                          THEN {{<<"g1", p[1]>>, <<"g2", p[2]>>} : p \in {q \in InputNames(c) \X InputNames(c) : q[1] # q[2]}} ELSE {})
InitUnroll == /\ kind = "unroll" /\ c1 = <<>> /\ S = {} /\ E = {}
              /\ c0 \in UFam
              /\ n \in (IF Full THEN 1..3 ELSE {2})
              /\ sio \in Pairings(c0)
              /\ (3 - Cardinality(sio)) * n + Cardinality(sio) <= 9
UnrollEvent ==
  LET st == UnrollModel(ToNamed(c0), n, sio)
      ios == InputNames(c0) \cup OutputNames(c0)
  IN [c |-> c0, n |-> n, sio |-> SeqOf(sio), uc |-> Indexed(st), exc |-> "",
      iomap |-> SeqOf({<<io, [t \in 1..n |-> UName(io, t - 1)]>> : io \in ios})]
UnrollOK == kind = "unroll" => Strip(Judge_unroll(UnrollEvent)) = {}
Next == UNCHANGED vars
=============================================================================

------------------------------ MODULE CGGraph ------------------------------
(***************************************************************************)
(* Graph-theoretic definitions on indexed circuits, written without        *)
(* reference to the code's algorithms (closures by fixpoint, longest paths *)
(* by recursion over a topological order, reconvergence with reflexive     *)
(* reach sets, separation by backward closure avoiding the cut).           *)
(***************************************************************************)
EXTENDS CGTypes

FoMap(c) == [i \in 1..c.n |-> {j \in 1..c.n : i \in Range(c.fi[j])}]
FiMap(c) == [i \in 1..c.n |-> Range(c.fi[i])]

RECURSIVE Close(_,_)
Close(adj, T) == LET T2 == T \cup UNION {adj[i] : i \in T} IN IF T2 = T THEN T ELSE Close(adj, T2)
\* nodes reachable by a path of length >= 1 from some member of S
Desc(c, S) == LET fo == FoMap(c) IN Close(fo, UNION {fo[i] : i \in S})
Anc(c, S)  == LET fi == FiMap(c) IN Close(fi, UNION {fi[i] : i \in S})
Cyclic(c)  == \E i \in 1..c.n : i \in Desc(c, {i})

StartSet(c) == OfType(c, {"input", "bb_output"})
EndSet(c)   == Outputs(c) \cup OfType(c, {"bb_input"})
Startpoints(c, S) == (S \cup Anc(c, S)) \cap StartSet(c)
Endpoints(c, S)   == (S \cup Desc(c, S)) \cap EndSet(c)

\* longest path (number of edges) ending at / starting from each node; requires IsTopo(c)
RECURSIVE LongestToFrom(_,_,_)
LongestToFrom(c, i, acc) ==
  IF i > c.n THEN acc
  ELSE LongestToFrom(c, i + 1, Append(acc, IF Len(c.fi[i]) = 0 THEN 0 ELSE 1 + Max({acc[j] : j \in Range(c.fi[i])})))
LongestTo(c) == LongestToFrom(c, 1, <<>>)                    \* sequence: node -> longest path from a source
RECURSIVE LongestFromDown(_,_,_,_)
LongestFromDown(c, fo, i, acc) ==                            \* acc : function on i+1..n
  IF i < 1 THEN acc
  ELSE LongestFromDown(c, fo, i - 1, (i :> (IF fo[i] = {} THEN 0 ELSE 1 + Max({acc[j] : j \in fo[i]}))) @@ acc)
LongestFrom(c) == LongestFromDown(c, FoMap(c), c.n, <<>>)    \* function: node -> longest path to a sink

\* a node whose fan-out has two distinct branches that reach a common node (a branch reaches itself)
Reconvergent(c) ==
  LET fo == FoMap(c)
      reach == [i \in 1..c.n |-> {i} \cup Close(fo, fo[i])]
  IN {i \in 1..c.n : \E a, b \in fo[i] : a # b /\ reach[a] \cap reach[b] # {}}

\* C separates n from every source: no path from a node without fan-in to n avoids C
RECURSIVE BackAvoid(_,_,_)
BackAvoid(fi, C, T) == LET T2 == T \cup (UNION {fi[i] : i \in T} \ C) IN IF T2 = T THEN T ELSE BackAvoid(fi, C, T2)
Separates(c, C, n) ==
  n \in C \/ LET fi == FiMap(c) IN \A s \in BackAvoid(fi, C, {n}) : fi[s] # {}

IsTopoOrder(c, ord) ==
  /\ Len(ord) = c.n /\ Range(ord) = 1..c.n
  /\ \A p, q \in 1..c.n : ord[p] \in Range(c.fi[ord[q]]) => p < q

\* every simple path (no node twice) from s to t, s # t, as a sequence of nodes; defined on cyclic graphs too.
\* This is what Circuit.paths(s, t, cutoff) enumerates (networkx all_simple_paths): cutoff = -1 means none,
\* otherwise only the paths of at most `cutoff` edges.
RECURSIVE PathsFromTo(_,_,_)
PathsFromTo(fo, p, t) ==
  LET u == p[Len(p)] IN
  IF u = t THEN {p} ELSE UNION {PathsFromTo(fo, Append(p, v), t) : v \in fo[u] \ Range(p)}
SimplePaths(c, s, t) == PathsFromTo(FoMap(c), <<s>>, t)
PathsWithin(c, s, t, cutoff) == {p \in SimplePaths(c, s, t) : cutoff = -1 \/ Len(p) - 1 <= cutoff}
\* consequences used by MCPaths: a path exists exactly when t is a descendant of s; every path is a walk along edges
PathIsWalk(c, p) == \A k \in 1..(Len(p) - 1) : p[k] \in Range(c.fi[p[k + 1]])

\* the plain accessors of the class
EdgeSet(c)        == UNION {{<<u, j>> : u \in Range(c.fi[j])} : j \in 1..c.n}
IoSet(c)          == Inputs(c) \cup Outputs(c)
FilterType(c, T)  == OfType(c, T)
=============================================================================

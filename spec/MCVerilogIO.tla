----------------------------- MODULE MCVerilogIO -----------------------------
(***************************************************************************)
(* The write -> read round trip of structural Verilog inside the model     *)
(* (C03 / C14 at specification level), for every circuit of G1 (one gate   *)
(* of every type over inputs, constants 0 1 x and an inverter), G2 (two    *)
(* gates) and a family with a flip-flop instance:                          *)
(*   WriterDenotes  : the written program denotes the circuit              *)
(*   ReaderDenotes  : the circuit the reader model builds denotes the      *)
(*                    program it was given                                 *)
(*   RoundTrip      : reader(writer(c)) = c up to the constant nodes       *)
(*   RoundTripRel   : ... and satisfies the recorded-event relation of C03 *)
(*   ReadersAgree   : full and fast reader models satisfy the relation of  *)
(*                    C14 (no x constants: outside the fast subset)        *)
(***************************************************************************)
EXTENDS CGVerilogIO, CGLogic, CGFamilies

VARIABLE c0
Flop == [inst |-> "r0", type |-> "ff", ins |-> <<"clk", "d">>, outs |-> <<"q">>]
\* a, clk inputs; g = t(a, q_net); r0.d <- g | unconnected; q_net = buf(r0.q) | r0.q unconnected (then g = t(a)); clk connected or not
BBCirc(t, dConn, qConn, clkConn) ==
  LET names == <<"a", "clk", "r0.q", "qn", "g", "r0.clk", "r0.d">> IN
  [name |-> "bbfam", n |-> 7, names |-> names,
   ty |-> <<"input", "input", "bb_output", "buf", t, "bb_input", "bb_input">>,
   out |-> <<FALSE, FALSE, FALSE, qConn, TRUE, FALSE, FALSE>>,
   fi |-> << <<>>, <<>>, <<>>, IF qConn THEN <<3>> ELSE <<1>>, IF qConn /\ t \notin Gates1 THEN <<1, 4>> ELSE <<1>>,
             IF clkConn THEN <<2>> ELSE <<>>, IF dConn THEN <<5>> ELSE <<>> >>,
   bbs |-> <<Flop>>, acyc |-> TRUE]
BBFam == {BBCirc(t, d, q, k) : t \in {"and", "xor", "not", "nor"}, d \in BOOLEAN, q \in BOOLEAN, k \in BOOLEAN}
Fam == G1(0) \cup G2ok(0) \cup BBFam
Init == c0 \in Fam
Next == UNCHANGED c0
P == WriterProgram(c0)
Full == ReaderModel(P, "tie_")
Fast == ReaderModel(P, "tie")
IdxB(st) == [Indexed(st) EXCEPT !.name = c0.name,
                                !.bbs = IF DOMAIN st.bbs = {} THEN <<>> ELSE <<Flop>>]
WriterDenotes == NFree(c0) <= MaxBits => ParseClauses(P, c0) = {}
ReaderDenotes == ParseClauses(P, IdxB(Full)) = {}
RoundTrip == Full = ConstExpanded(ToNamed(c0), "tie_") /\ Fast = ConstExpanded(ToNamed(c0), "tie")
RoundTripRel == Judge_v_roundtrip([c |-> c0, c2 |-> IdxB(Full), behavioral |-> FALSE, exc |-> ""]) = {}
ReadersAgree == "x" \notin Range(c0.ty) => Judge_parse2([cf |-> IdxB(Fast), cs |-> IdxB(Full), excf |-> "", excs |-> ""]) = {}
=============================================================================

------------------------------- MODULE MCFas -------------------------------
(***************************************************************************)
(* As-built state machine of approx_min_fas (the feedback-arc heuristic    *)
(* inside tx.acyclic_unroll): repeatedly strip all sinks, strip all        *)
(* sources, then move ANY node of maximal (out-degree - in-degree) to the  *)
(* left sequence (Python's max() returns the first maximal node in graph   *)
(* iteration order, which the caller does not control).  Checked on every  *)
(* digraph on 3 and 4 labelled nodes and every tie-break:                  *)
(*   - removing the feedback edges leaves no cycle (the function never     *)
(*     raises "approx_min_fas has failed");                                *)
(*   - cutting every out-edge of the feedback nodes (what acyclic_unroll   *)
(*     does) leaves no cycle;                                              *)
(*   - every feedback edge lies on a cycle; an acyclic graph has none      *)
(*     (so acyclic_unroll of an acyclic circuit is one plain copy);        *)
(*   - the machine and the set-valued operator CGTxLoops!FasOrderings      *)
(*     (used by JudgeTx) describe the same orderings.                      *)
(***************************************************************************)
EXTENDS CGTxLoops, CGFamilies, IOUtils

VARIABLES N, E, rem, s1, s2, phase
vars == <<N, E, rem, s1, s2, phase>>

\* thorough tier: also every digraph on 5 labelled nodes with at most 8 edges (263 950 graphs)
Full == "MC_FULL" \in DOMAIN IOEnv
DG5s == {GraphCirc(5, X) : X \in {Y \in SUBSET PairsNE(5) : Cardinality(Y) <= 8}}
Init == /\ \E c \in DG3(0) \cup DG4(0) \cup (IF Full THEN DG5s ELSE {}) : N = NameSet(c) /\ E = EdgeNames(c)
        /\ rem = N /\ s1 = <<>> /\ s2 = <<>> /\ phase = "sinks"
Sinks == /\ phase = "sinks"
         /\ LET S == {n \in rem : OutDegIn(E, rem, n) = 0} IN
            IF S = {} THEN phase' = "sources" /\ UNCHANGED <<rem, s1, s2>>
            ELSE rem' = rem \ S /\ s2' = s2 \o SetToSeqApi(S) /\ UNCHANGED <<s1, phase>>
         /\ UNCHANGED <<N, E>>
Sources == /\ phase = "sources"
           /\ LET S == {n \in rem : InDegIn(E, rem, n) = 0} IN
              IF S = {} THEN phase' = "max" /\ UNCHANGED <<rem, s1, s2>>
              ELSE rem' = rem \ S /\ s1' = s1 \o SetToSeqApi(S) /\ UNCHANGED <<s2, phase>>
           /\ UNCHANGED <<N, E>>
PickMax == /\ phase = "max"
           /\ IF rem = {} THEN phase' = "done" /\ UNCHANGED <<rem, s1, s2>>
              ELSE \E n \in MaxDelta(E, rem) : rem' = rem \ {n} /\ s1' = Append(s1, n) /\ phase' = "sinks" /\ UNCHANGED s2
           /\ UNCHANGED <<N, E>>
Next == Sinks \/ Sources \/ PickMax
Spec == Init /\ [][Next]_vars /\ WF_vars(Next)

Done == phase = "done"
Ordering == s1 \o RevSeq(s2)
FB == FeedbackEdges(E, Ordering)
IsOrdering == Done => Len(Ordering) = Cardinality(N) /\ Range(Ordering) = N
FasBreaksAllCycles == Done => AcyclicEdges(N, E \ FB)
NodeCutBreaksAllCycles == Done => AcyclicEdges(N, {e \in E : e[1] \notin {f[1] : f \in FB}})
AcyclicHasNoFeedback == Done /\ AcyclicEdges(N, E) => FB = {}
CyclicHasFeedback == Done /\ ~AcyclicEdges(N, E) => FB # {}
SameAsOperator == Done => Ordering \in FasOrderings(E, N, <<>>, <<>>)
Terminates == <>Done
=============================================================================

----------------------------- MODULE JudgeComp -----------------------------
(***************************************************************************)
(* C06: hierarchical composition is functional substitution.               *)
(* Structural clauses on names / types / registry, and the semantic clause:*)
(* in the result r (evaluated over its own free signals) the spliced copy  *)
(* behaves as the child sc does when sc's free signals take the values of  *)
(* their spliced counterparts, and every pre-existing node keeps the        *)
(* function it had in the parent p (p's free signals taking their values   *)
(* in r).                                                                  *)
(***************************************************************************)
EXTENDS CGSem, CGLint

CompMachinery(c) == (IF WellFormedRec(c) THEN {} ELSE {"MACHINERY:malformed_record"})
                    \cup (IF c.acyc /\ ~IsTopo(c) THEN {"MACHINERY:not_topological"} ELSE {})
BBView(c) == {<<c.bbs[b].inst, c.bbs[b].type, Range(c.bbs[b].ins), Range(c.bbs[b].outs)>> : b \in 1..Len(c.bbs)}
PfxBBView(c, name) == {<<Pfx(name, c.bbs[b].inst), c.bbs[b].type, Range(c.bbs[b].ins), Range(c.bbs[b].outs)>> : b \in 1..Len(c.bbs)}

\* the copy of sc inside r (node n of sc is node Ren(n) of r) computes what sc computes
CopyFaithful(sc, r, vr, U, name) ==
  IF \E i \in 1..sc.n : ~HasName(r, Pfx(name, sc.names[i])) THEN {"spliced_node_missing"}
  ELSE LET fv  == [i \in FreeNodes(sc) |-> vr[Idx(r, Pfx(name, sc.names[i]))]]
           vsc == Eval(sc, U, fv)
       IN {"spliced_function:" \o Pfx(name, sc.names[i]) : i \in {j \in 1..sc.n : vsc[j] # vr[Idx(r, Pfx(name, sc.names[j]))]}}

\* every node of p (renamed by Ren) keeps its function, p's free signals taking the values they have in r
KeepFunction(p, r, vr, U, Ren(_)) ==
  IF \E i \in 1..p.n : ~HasName(r, Ren(p.names[i])) THEN {"preexisting_node_missing"}
  ELSE LET fv == [i \in FreeNodes(p) |-> vr[Idx(r, Ren(p.names[i]))]]
           vp == Eval(p, U, fv)
       IN {"preexisting_function:" \o p.names[i] : i \in {j \in 1..p.n : vp[j] # vr[Idx(r, Ren(p.names[j]))]}}

Same(x) == x

(* add_subcircuit(sc, name, conns, strip): e.p, e.sc, e.name, e.conns (seq of <<child io, targets>>), e.strip, e.r *)
Judge_add_subcircuit(e) ==
  IF e.exc # "" THEN {"raised:" \o e.exc} ELSE
  LET p == e.p  sc == e.sc  r == e.r  name == e.name
      new == {Pfx(name, sc.names[i]) : i \in 1..sc.n}
      scIn == NamesOf(sc, Inputs(sc))
      scOut == NamesOf(sc, Outputs(sc))
      outTargets == UNION {Range(e.conns[j][2]) : j \in {x \in 1..Len(e.conns) : e.conns[x][1] \notin scIn}}
  IN CompMachinery(p) \cup CompMachinery(sc) \cup CompMachinery(r)
     \cup (IF NameSet(r) = NameSet(p) \cup new THEN {} ELSE {"node_set"})
     \cup (IF e.strip THEN (IF InputNames(r) = InputNames(p) THEN {} ELSE {"parent_inputs_changed"})
                           \cup (IF OutputNames(r) = OutputNames(p) THEN {} ELSE {"parent_outputs_changed"})
           ELSE (IF InputNames(r) = InputNames(p) \cup {Pfx(name, n) : n \in scIn} THEN {} ELSE {"inputs_with_child_io"})
                \cup (IF OutputNames(r) = OutputNames(p) \cup {Pfx(name, n) : n \in scOut} THEN {} ELSE {"outputs_with_child_io"}))
     \cup (IF BBView(r) = BBView(p) \cup PfxBBView(sc, name) THEN {} ELSE {"registry"})
     \cup {"preexisting_type_changed:" \o p.names[i] : i \in {j \in 1..p.n : HasName(r, p.names[j]) /\ r.ty[Idx(r, p.names[j])] # p.ty[j]}}
     \cup {"preexisting_fanin_changed:" \o p.names[i] :
             i \in {j \in 1..p.n : HasName(r, p.names[j]) /\ p.names[j] \notin outTargets
                                   /\ FiNames(r, Idx(r, p.names[j])) # FiNames(p, j)}}
     \cup UNION { LET k == e.conns[j][1] IN
                  IF k \in scIn THEN {"input_not_fed:" \o k : t \in {x \in Range(e.conns[j][2]) : <<x, Pfx(name, k)>> \notin EdgeNames(r)}}
                  ELSE {"output_not_driving:" \o k : t \in {x \in Range(e.conns[j][2]) : <<Pfx(name, k), x>> \notin EdgeNames(r)}}
                  : j \in 1..Len(e.conns) }
     \cup (IF ~(r.acyc /\ sc.acyc /\ p.acyc) \/ NFree(r) > MaxBits \/ NameSet(r) # NameSet(p) \cup new THEN {}
           ELSE LET U == StdU(r)  vr == EvalStd(r) IN
                CopyFaithful(sc, r, vr, U, name) \cup KeepFunction(p, r, vr, U, Same))

(* fill_blackbox(name, sc): e.p, e.sc, e.name, e.r *)
Judge_fill_blackbox(e) ==
  IF e.exc # "" THEN {"raised:" \o e.exc} ELSE
  LET p == e.p  sc == e.sc  r == e.r  name == e.name
      bb == BBOf(p, name)
      pins == {Pin(name, q) : q \in Range(bb.ins) \cup Range(bb.outs)}
      Ren(x) == IF x \in pins THEN Pfx(name, StripPrefix(x, name \o ".")) ELSE x
      new == {Pfx(name, sc.names[i]) : i \in 1..sc.n}
  IN CompMachinery(p) \cup CompMachinery(sc) \cup CompMachinery(r)
     \cup (IF NameSet(r) = {Ren(x) : x \in NameSet(p)} \cup new THEN {} ELSE {"node_set"})
     \cup (IF InputNames(r) = InputNames(p) THEN {} ELSE {"parent_inputs_changed"})
     \cup (IF OutputNames(r) = OutputNames(p) THEN {} ELSE {"parent_outputs_changed"})
     \cup (IF BBView(r) = (BBView(p) \ {<<name, bb.type, Range(bb.ins), Range(bb.outs)>>}) \cup PfxBBView(sc, name)
           THEN {} ELSE {"registry"})
     \cup (IF ~(r.acyc /\ sc.acyc /\ p.acyc) \/ NFree(r) > MaxBits \/ NameSet(r) # {Ren(x) : x \in NameSet(p)} \cup new THEN {}
           ELSE LET U == StdU(r)  vr == EvalStd(r) IN
                CopyFaithful(sc, r, vr, U, name) \cup KeepFunction(p, r, vr, U, Ren))

(* strip_blackboxes(c, ignore_pins): e.c, e.ignore (seq of pin names), e.r *)
RECURSIVE LastDot(_,_)
LastDot(n, i) == IF i < 1 THEN 0 ELSE IF SubSeq(n, i, i) = "." THEN i ELSE LastDot(n, i - 1)
PinPart(n) == SubSeq(n, LastDot(n, Len(n)) + 1, Len(n))           \* text after the last dot
RECURSIVE Dots2Under(_,_)
Dots2Under(n, i) == IF i > Len(n) THEN "" ELSE (IF SubSeq(n, i, i) = "." THEN "_" ELSE SubSeq(n, i, i)) \o Dots2Under(n, i + 1)
Judge_strip_blackboxes(e) ==
  IF e.exc # "" THEN {"raised:" \o e.exc} ELSE
  LET c == e.c  r == e.r
      ign == Range(e.ignore)
      pinsIn  == {i \in 1..c.n : c.ty[i] = "bb_input"}
      pinsOut == {i \in 1..c.n : c.ty[i] = "bb_output"}
      ignored == {i \in pinsIn \cup pinsOut : PinPart(c.names[i]) \in ign}
      Ren(x) == IF \E i \in (pinsIn \cup pinsOut) \ ignored : c.names[i] = x THEN Dots2Under(x, 1) ELSE x
      kept == (1..c.n) \ ignored
  IN CompMachinery(c) \cup CompMachinery(r)
     \cup (IF Len(r.bbs) = 0 THEN {} ELSE {"registry_not_empty"})
     \cup (IF NameSet(r) = {Ren(c.names[i]) : i \in kept} THEN {} ELSE {"node_set"})
     \cup (IF NameSet(r) # {Ren(c.names[i]) : i \in kept} THEN {} ELSE
           {"pin_not_exposed_as_output:" \o c.names[i] : i \in {j \in pinsIn \ ignored :
                 LET k == Idx(r, Ren(c.names[j])) IN ~(r.ty[k] = "buf" /\ r.out[k])}}
           \cup {"pin_not_exposed_as_input:" \o c.names[i] : i \in {j \in pinsOut \ ignored : r.ty[Idx(r, Ren(c.names[j]))] # "input"}}
           \cup {"other_node_changed:" \o c.names[i] : i \in {j \in kept \ (pinsIn \cup pinsOut) :
                 LET k == Idx(r, c.names[j]) IN r.ty[k] # c.ty[j] \/ r.out[k] # c.out[j]
                                                 \/ FiNames(r, k) # {Ren(x) : x \in FiNames(c, j) \ NamesOf(c, ignored)}}})
     \cup (IF ~(r.acyc /\ c.acyc) \/ NFree(r) > MaxBits \/ NameSet(r) # {Ren(c.names[i]) : i \in kept} THEN {}
           ELSE \* r's free signals: exposed output pins (inputs), original inputs, loads of ignored output pins
                LET U == StdU(r)  vr == EvalStd(r)
                    fv == [i \in FreeNodes(c) |->
                             IF i \in ignored THEN (IF FoSet(c, i) = {} THEN KX(U) ELSE vr[Idx(r, c.names[CHOOSE j \in FoSet(c, i) : TRUE])])
                             ELSE vr[Idx(r, Ren(c.names[i]))]]
                    vc == Eval(c, U, fv)
                IN {"function_changed:" \o c.names[i] : i \in {j \in kept : vc[j] # vr[Idx(r, Ren(c.names[j]))]}})
=============================================================================

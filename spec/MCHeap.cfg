CONSTANTS Objs = {o1, o2, o3}
          Refs = {r1, r2, r3, r4, r5, r6}
          Vals = {0, 1}
SPECIFICATION SpecGood
INVARIANT NoSharing
INVARIANT ArgsUnchanged
PROPERTY Isolated
CHECK_DEADLOCK FALSE

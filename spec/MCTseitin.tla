----------------------------- MODULE MCTseitin -----------------------------
(***************************************************************************)
(* Model checking of the as-built Tseitin encoder (CGSat!Encode): for every*)
(* circuit of the family and EVERY iteration order of every fan-in set the *)
(* models of the encoding, restricted to node variables, are exactly the   *)
(* consistent valuations.                                                  *)
(***************************************************************************)
EXTENDS CGSat, CGFamilies

PermSeqs(s) == LET m == Len(s) IN {[j \in 1..m |-> s[f[j]]] : f \in Permutations(1..m)}
\* all assignments of an iteration order to every node
RECURSIVE OrdsFrom(_,_)
OrdsFrom(c, i) == IF i > c.n THEN {<<>>}
                  ELSE {<<p>> \o r : p \in PermSeqs(c.fi[i]), r \in OrdsFrom(c, i + 1)}
ParityPair == {c \in G2ok(0) : c.ty[4] \in {"xor","xnor"} /\ c.ty[5] \in {"xor","xnor"}
                            /\ Len(c.fi[4]) = 3 /\ Len(c.fi[5]) >= 3}
Fam == NoX(G1(0)) \cup ParityPair

VARIABLES c, ords
Init == \E x \in Fam : c = x /\ ords \in OrdsFrom(x, 1)
Next == UNCHANGED <<c, ords>>
Exact == EncodeExact(c, ords)
VarsDistinct == Encode(c, ords).nv >= c.n
=============================================================================

SPECIFICATION SpecReach
INVARIANT TypeOK
INVARIANT LegalWiring
INVARIANT BBConsistent
PROPERTY RejectedAddsNoEdge
CONSTRAINT Depth4
VIEW View
CHECK_DEADLOCK FALSE

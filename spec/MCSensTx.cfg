INIT InitSens
NEXT Next
INVARIANT SensTxOK
CHECK_DEADLOCK FALSE

---------------------------- MODULE GenCircuits ----------------------------
(***************************************************************************)
(* Emits a family of CGFamilies as ndjson (one indexed circuit per line)   *)
(* for the harness to drive the real code with (specification -> code).    *)
(***************************************************************************)
EXTENDS CGFamilies, Json, IOUtils, SequencesExt

Emit(file, S) == ndJsonSerialize(file, SetToSeq(S))

Family == IOEnv.GEN_FAMILY
ASSUME /\ PrintT(<<"family", Family>>)
       /\ CASE Family = "G1" -> Emit(IOEnv.GEN_OUT, G1(0)) /\ PrintT(<<"count", Cardinality(G1(0))>>)
            [] Family = "G2" -> Emit(IOEnv.GEN_OUT, G2ok(0)) /\ PrintT(<<"count", Cardinality(G2ok(0))>>)
            [] Family = "W"  -> Emit(IOEnv.GEN_OUT, W(0)) /\ PrintT(<<"count", Cardinality(W(0))>>)
            [] Family = "L2"   -> Emit(IOEnv.GEN_OUT, L2(0))
            [] Family = "DAG4" -> Emit(IOEnv.GEN_OUT, DAG4(0))
            [] Family = "DAG5" -> Emit(IOEnv.GEN_OUT, DAG5(0))
            [] Family = "DAG6" -> Emit(IOEnv.GEN_OUT, DAG6(0))
            [] Family = "DG3"  -> Emit(IOEnv.GEN_OUT, DG3(0))
            [] Family = "DG4"  -> Emit(IOEnv.GEN_OUT, DG4(0))
VARIABLE done
Init == done = TRUE
Next == UNCHANGED done
=============================================================================

---------------------------- MODULE GenCircuits ----------------------------
(***************************************************************************)
(* Emits a family of CGFamilies as ndjson (one indexed circuit per line)   *)
(* for the harness to drive the real code with (specification -> code).    *)
(***************************************************************************)
EXTENDS CGFamilies, Json, IOUtils

RECURSIVE SetSeq(_)
SetSeq(S) == IF S = {} THEN <<>> ELSE LET x == CHOOSE y \in S : TRUE IN <<x>> \o SetSeq(S \ {x})
Emit(file, S) == ndJsonSerialize(file, SetSeq(S))

Family == IOEnv.GEN_FAMILY
ASSUME /\ PrintT(<<"family", Family>>)
       /\ CASE Family = "G1" -> Emit(IOEnv.GEN_OUT, G1) /\ PrintT(<<"count", Cardinality(G1)>>)
            [] Family = "G2" -> Emit(IOEnv.GEN_OUT, G2ok) /\ PrintT(<<"count", Cardinality(G2ok)>>)
            [] Family = "W"  -> Emit(IOEnv.GEN_OUT, W) /\ PrintT(<<"count", Cardinality(W)>>)
VARIABLE done
Init == done = TRUE
Next == UNCHANGED done
=============================================================================

INIT InitD
NEXT Next
INVARIANT SupergatesOK

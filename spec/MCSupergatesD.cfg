INIT InitD
NEXT Next
INVARIANT SupergatesOK
CHECK_DEADLOCK FALSE

----------------------------- MODULE MCExprReader -----------------------------
(***************************************************************************)
(* C02 inside the model: the circuit the as-built reader machine           *)
(* (CGExprReader) builds DENOTES the program, for every program            *)
(*     assign y = E;   assign N = c | a;        (both text orders)         *)
(* with E any expression of depth <= 2 over a, b, c, 1'b1 (not, and, or,   *)
(* xor, xnor, ?:, repeated operands included) and N a declared net whose   *)
(* name is harmless (w) or looks like a name the reader invents (not_a,    *)
(* and_a_b, xor_a_b, not_a_0, a_dup, tie_1, mux_o_a_b_c).                  *)
(*   MCExprReader      reserved = every identifier of the text: holds.     *)
(*   MCExprReaderOld   reserved = {} (the reader before fix 8053cb8):      *)
(*                     expected counterexample = the name-capture defect   *)
(*                     (assign y = ~a & b; assign not_a = c | a).          *)
(***************************************************************************)
EXTENDS CGExprReader, CGLogic, IOUtils

VARIABLES E, N, order
Atoms == {<<"$a">>, <<"$b">>, <<"1">>}
Un == Atoms \cup {<<"$a", "~">>, <<"$b", "~">>}
Ops == {"&", "|", "^", "~^"}
Bin == {u1 \o u2 \o <<op>> : u1 \in Un, u2 \in Un, op \in Ops}
Deep == {b \o <<"$c">> \o <<op>> : b \in Bin, op \in {"&", "^"}} \cup {<<"$c">> \o b \o <<"|">> : b \in Bin}
        \cup {b \o <<"~">> : b \in Bin}
MuxEx == {<<"$a", "$b", "$c", "?:">>, <<"$a", "~", "$b", "$a", "?:">>, <<"$c", "$a", "$b", "&", "1", "?:">>}
Exprs == Un \cup Bin \cup Deep \cup MuxEx
Names == {"w", "not_a", "and_a_b", "xor_a_b", "not_a_0", "a_dup", "tie_1", "mux_o_a_b_c", "and_not_a_b"}
Init == E \in Exprs /\ N \in Names /\ order \in {<<1, 2>>, <<2, 1>>}
Next == UNCHANGED <<E, N, order>>
P == [name |-> "top", ports |-> <<"a", "b", "c", "y", N>>, inputs |-> <<"a", "b", "c">>, outputs |-> <<"y", N>>,
      items |-> << [k |-> "assign", lhs |-> "y", rhs |-> E], [k |-> "assign", lhs |-> N, rhs |-> <<"$c", "$a", "|">>] >>,
      bbtypes |-> <<>>]
Keywords == {"module", "top", "input", "output", "wire", "assign", "endmodule", "b1"}
Old == "MC_OLD_READER" \in DOMAIN IOEnv
R == IF Old THEN {} ELSE ProgramIdents(P) \cup Keywords
Result == [Indexed(ExprReaderModel(P, order, R)) EXCEPT !.name = "top"]
ReaderDenotes == Judge_parse([p |-> P, r |-> Result, exc |-> "", expect_reject |-> FALSE]) = {}
\* the declared nets are nodes of the result and no other node carries a text identifier
NoCapture == {"a", "b", "c", "y", N} \subseteq NameSet(Result)
=============================================================================

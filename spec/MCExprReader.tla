----------------------------- MODULE MCExprReader -----------------------------
(***************************************************************************)
(* C02 inside the model: the circuit the as-built reader machine           *)
(* (CGExprReader) builds DENOTES the program, for every program            *)
(*     assign y = E;   assign N = c | a;        (both text orders)         *)
(* with E any expression of depth <= 2 over a, b, c, 1'b1 (not, and, or,   *)
(* xor, xnor, ?:, repeated operands included) and N a declared net whose   *)
(* name is harmless (w) or looks like a name the reader invents (not_a,    *)
(* and_a_b, xor_a_b, not_a_0, a_dup, tie_1, mux_o_a_b_c).                  *)
(*   MCExprReader      reserved = every identifier of the text: holds.     *)
(*   MCExprReaderOld   reserved = {} (the reader before fix 8053cb8):      *)
(*                     expected counterexample = the name-capture defect   *)
(*                     (assign y = ~a & b; assign not_a = c | a).          *)
(***************************************************************************)
EXTENDS CGExprReader, CGLogic, CGFamilies, IOUtils

VARIABLES E, N, order, c0, go
Atoms == {<<"$a">>, <<"$b">>, <<"1">>}
Un == Atoms \cup {<<"$a", "~">>, <<"$b", "~">>}
Ops == {"&", "|", "^", "~^"}
Bin == {u1 \o u2 \o <<op>> : u1 \in Un, u2 \in Un, op \in Ops}
Deep == {b \o <<"$c">> \o <<op>> : b \in Bin, op \in {"&", "^"}} \cup {<<"$c">> \o b \o <<"|">> : b \in Bin}
        \cup {b \o <<"~">> : b \in Bin}
MuxEx == {<<"$a", "$b", "$c", "?:">>, <<"$a", "~", "$b", "$a", "?:">>, <<"$c", "$a", "$b", "&", "1", "?:">>}
Exprs == Un \cup Bin \cup Deep \cup MuxEx
Names == {"w", "not_a", "and_a_b", "xor_a_b", "not_a_0", "a_dup", "tie_1", "mux_o_a_b_c", "and_not_a_b"}
Init == E \in Exprs /\ N \in Names /\ order \in {<<1, 2>>, <<2, 1>>} /\ c0 = <<>> /\ go = TRUE
Next == UNCHANGED <<E, N, order, c0, go>>
P == [name |-> "top", ports |-> <<"a", "b", "c", "y", N>>, inputs |-> <<"a", "b", "c">>, outputs |-> <<"y", N>>,
      items |-> << [k |-> "assign", lhs |-> "y", rhs |-> E], [k |-> "assign", lhs |-> N, rhs |-> <<"$c", "$a", "|">>] >>,
      bbtypes |-> <<>>]
Keywords == {"module", "top", "input", "output", "wire", "assign", "endmodule", "b1"}
Old == "MC_OLD_READER" \in DOMAIN IOEnv
R == IF Old THEN {} ELSE ProgramIdents(P) \cup Keywords
Result == [Indexed(ExprReaderModel(P, order, R)) EXCEPT !.name = "top"]
ReaderDenotes == Judge_parse([p |-> P, r |-> Result, exc |-> "", expect_reject |-> FALSE]) = {}
\* the declared nets are nodes of the result and no other node carries a text identifier
NoCapture == {"a", "b", "c", "y", N} \subseteq NameSet(Result)

(* ---- behavioural write -> read inside the model (C03, `behavioral=True`): every circuit of G1 (constants, x, one-operand
   gates of every type) and G2; the relation of C03 holds between c and what the reader machine builds from the
   behavioural program of c ---- *)
InitB == go = FALSE /\ c0 \in G1(0) \cup G2ok(0) /\ E = <<>> /\ N = "" /\ order = <<>>
NextB == go = FALSE /\ go' = TRUE /\ UNCHANGED <<c0, E, N, order>>
PB == WriterProgramB(c0)
ResultB == [Indexed(ExprReaderModel(PB, [q \in 1..Len(PB.items) |-> q], ProgramIdents(PB) \cup Keywords)) EXCEPT !.name = c0.name]
BehaviouralRoundTrip == go => Judge_v_roundtrip([c |-> c0, c2 |-> ResultB, behavioral |-> TRUE, exc |-> ""]) = {}
BehaviouralWriterDenotes == go /\ NFree(c0) <= MaxBits => ParseClauses(PB, c0) = {}
=============================================================================

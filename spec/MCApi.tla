------------------------------- MODULE MCApi -------------------------------
(***************************************************************************)
(* The construction API (CGApi, as built) run as a state machine by TLC.   *)
(*  - MCApi.cfg      reach: every history of bounded depth from the empty  *)
(*                   circuit over a small universe; invariants TypeOK,     *)
(*                   LegalWiring in every reachable state.                 *)
(*  - MCApiStep.cfg  inductive step: Init = EVERY legal circuit over the   *)
(*                   universe with <= 3 nodes, one call with a rich        *)
(*                   argument space (duplicates, self reference, missing,  *)
(*                   dotted, digit-initial names, unsupported type).       *)
(*  - MCApiAtomic.cfg the INTENDED atomicity properties (a rejected call   *)
(*                   adds no edge; registered instances keep their pins):  *)
(*                   the as-built model violates them (known findings).    *)
(*  - MCApiSim.cfg   used with -simulate to produce behaviours that the    *)
(*                   harness replays call by call into the real code.      *)
(* `last` carries the call as JSON (hidden from the state VIEW).           *)
(***************************************************************************)
EXTENDS CGApi, Json, IOUtils

VARIABLES st, removed, last, lastExc
vars == <<st, removed, last, lastExc>>
View == <<st, removed>>

FF     == [type |-> "ff", ins |-> {"d"}, outs |-> {"q"}]
FFJ    == [type |-> "ff", ins |-> <<"d">>, outs |-> <<"q">>]
FFIMPL == [nodes |-> {"d", "q"}, ty |-> ("d" :> "input" @@ "q" :> "not"), out |-> ("d" :> FALSE @@ "q" :> TRUE),
           edges |-> {<<"d", "q">>}, bbs |-> <<>>]
FFIMPLJ == [name |-> "ffimpl", n |-> 2, names |-> <<"d", "q">>, ty |-> <<"input", "not">>, out |-> <<FALSE, TRUE>>,
            fi |-> << <<>>, <<1>> >>, bbs |-> <<>>, acyc |-> TRUE]
ONE    == [nodes |-> {"w"}, ty |-> ("w" :> "buf"), out |-> ("w" :> TRUE), edges |-> {}, bbs |-> <<>>]
ONEJ   == [name |-> "one", n |-> 1, names |-> <<"w">>, ty |-> <<"buf">>, out |-> <<TRUE>>, fi |-> << <<>> >>, bbs |-> <<>>, acyc |-> TRUE]

Names  == {"a", "g", "i.q"}
NamesX == Names \cup {"1n"}
Types  == {"input", "buf", "and", "foo"}
L01(S) == {<<>>} \cup {<<x>> : x \in S}
L012(S) == L01(S) \cup {<<x, y>> : x \in S, y \in S}

EmitOn == "CGV_EMIT" \in DOMAIN IOEnv
EmitK == IF "CGV_EMIT_K" \in DOMAIN IOEnv THEN atoi(IOEnv.CGV_EMIT_K) ELSE 1     \* emit a seeded 1/K sample
Compact(s) == [n |-> {<<x, s.ty[x], s.out[x]>> : x \in s.nodes}, e |-> s.edges,
               b |-> {<<i, s.bbs[i].type, s.bbs[i].ins, s.bbs[i].outs>> : i \in DOMAIN s.bbs}]
Do(r, call, rem) ==
  /\ ((EmitOn /\ (EmitK = 1 \/ RandomElement(1..EmitK) = 1)) => PrintT(ToJson([pre |-> Compact(st), call |-> call, post |-> Compact(r.st), exc |-> r.exc, ret |-> r.ret])))
  /\ st' = r.st
  /\ lastExc' = r.exc
  /\ last' = ToJson(call)
  /\ removed' = rem

AddAct(NS, TS, LS, LO) == \E n \in NS, t \in TS, fi \in LS, fo \in LO, u \in BOOLEAN :
  Do(AddRes(st, n, t, fi, fo, FALSE, u),
     [op |-> "add", a |-> [n |-> n, t |-> t, fanin |-> fi, fanout |-> fo, output |-> FALSE, uid |-> u]], removed)
ConnectAct(LU, LV) == \E us \in LU, vs \in LV :
  Do(ConnectRes(st, us, vs), [op |-> "connect", a |-> [us |-> us, vs |-> vs]], removed)
DisconnectAct == \E u \in Names, v \in Names :
  Do(DisconnectRes(st, <<u>>, <<v>>), [op |-> "disconnect", a |-> [us |-> <<u>>, vs |-> <<v>>]], removed)
RemoveAct == \E n \in Names \cup {"i.d"} :
  Do(RemoveRes(st, <<n>>), [op |-> "remove", a |-> [ns |-> <<n>>]],
     removed \cup (IF n \in st.nodes /\ HasDot(n) THEN {n} ELSE {}))
SetOutputAct == \E n \in Names, v \in BOOLEAN :
  Do(SetOutputRes(st, <<n>>, v), [op |-> "set_output", a |-> [ns |-> <<n>>, val |-> v]], removed)
BBConns == { <<>>, << <<"q", <<"a">>>> >>, << <<"d", <<"a">>>> >>, << <<"d", <<"g">>>>, <<"q", <<"g">>>> >>,
             << <<"q", <<"a", "g">>>> >>, << <<"zz", <<"a">>>> >> }
AddBlackboxAct == \E cs \in BBConns :
  Do(AddBlackboxRes(st, FF, "i", <<"d">>, <<"q">>, cs),
     [op |-> "add_blackbox", a |-> [bb |-> FFJ, name |-> "i", conns |-> cs]], removed)
FillAct == Do(FillBlackboxRes(st, "i", FFIMPL), [op |-> "fill_blackbox", a |-> [name |-> "i", sc |-> FFIMPLJ]], removed)
SubConns == { <<>>, << <<"w", <<"a">>>> >>, << <<"w", <<"g">>>> >> }
\* a child that carries a blackbox instance r (pins r.d, r.q) between its input a and its output w
BBK  == [nodes |-> {"a", "r.d", "r.q", "w"}, ty |-> ("a" :> "input" @@ "r.d" :> "bb_input" @@ "r.q" :> "bb_output" @@ "w" :> "buf"),
         out |-> ("a" :> FALSE @@ "r.d" :> FALSE @@ "r.q" :> FALSE @@ "w" :> TRUE),
         edges |-> {<<"a", "r.d">>, <<"r.q", "w">>}, bbs |-> ("r" :> FF)]
BBKJ == [name |-> "bbk", n |-> 4, names |-> <<"a", "r.d", "r.q", "w">>, ty |-> <<"input", "bb_input", "bb_output", "buf">>,
         out |-> <<FALSE, FALSE, FALSE, TRUE>>, fi |-> << <<>>, <<1>>, <<>>, <<3>> >>,
         bbs |-> << [inst |-> "r", type |-> "ff", ins |-> <<"d">>, outs |-> <<"q">>] >>, acyc |-> TRUE]
SubConnsK == { <<>>, << <<"a", <<"a">>>> >>, << <<"w", <<"a">>>> >>, << <<"a", <<"g">>>>, <<"w", <<"a">>>> >>, << <<"w", <<"zz">>>> >> }
AddSubAct == \/ \E cs \in SubConns, sp \in BOOLEAN :
                Do(AddSubcircuitRes(st, ONE, "g", cs, sp),
                   [op |-> "add_subcircuit", a |-> [sc |-> ONEJ, name |-> "g", conns |-> cs, strip |-> sp]], removed)
             \/ \E cs \in SubConnsK :
                Do(AddSubcircuitRes(st, BBK, "i", cs, TRUE),
                   [op |-> "add_subcircuit", a |-> [sc |-> BBKJ, name |-> "i", conns |-> cs, strip |-> TRUE]], removed)

Init == st = EmptySt /\ removed = {} /\ last = "" /\ lastExc = ""
NextReach == \/ AddAct(NamesX, Types, L01(Names), L01(Names))
             \/ ConnectAct(L01(Names) \ {<<>>}, L012(Names) \ {<<>>})
             \/ DisconnectAct \/ RemoveAct \/ SetOutputAct \/ AddBlackboxAct \/ FillAct \/ AddSubAct
SpecReach == Init /\ [][NextReach]_vars

(* inductive step: every legal state over the universe with <= 3 nodes *)
TypesAll == {"input", "buf", "not", "and", "xor", "0", "bb_input", "bb_output"}
UNodes == {"a", "g", "i.d", "i.q"}
StatesOver(N) == UNION { { [nodes |-> N, ty |-> T, out |-> [x \in N |-> FALSE], edges |-> E, bbs |-> B] :
                             E \in {F \in SUBSET (N \X N) :
                                      LET s == [nodes |-> N, ty |-> T, out |-> [x \in N |-> FALSE], edges |-> F, bbs |-> <<>>]
                                      IN StLegalWiring(s)},
                             B \in {<<>>, ("i" :> FF)} }
                         : T \in [N -> TypesAll] }
StepNodes == IF "STEP_NODES" \in DOMAIN IOEnv THEN atoi(IOEnv.STEP_NODES) ELSE 2
InitStep == /\ \E N \in {M \in SUBSET UNodes : Cardinality(M) <= StepNodes} :
                 st \in {s \in StatesOver(N) : StBBConsistent(s, {})}
            /\ removed = {} /\ last = "" /\ lastExc = ""
RichTypes == TypesAll \cup {"foo", "x"}
Here == st.nodes \cup {"zz"}
NextStep == \/ AddAct({"a", "h", "1n", "i.q"}, RichTypes, L012(Here), L01(Here))
            \/ ConnectAct(L012(Here) \ {<<>>}, L012(Here) \ {<<>>})
            \/ RemoveAct \/ AddBlackboxAct \/ FillAct \/ AddSubAct \/ SetOutputAct \/ DisconnectAct
SpecStep == InitStep /\ [][NextStep]_vars

(* connect-focused transitions: every legal state over <= 3 of the nodes, every connect call with lists of
   length 1..2 over the present names and one absent name.  Used with CGV_EMIT to replay EVERY transition. *)
TypesConn == {"buf", "and", "input", "x", "bb_output", "bb_input"}
ConnMaxEdges == IF "CONN_MAXEDGES" \in DOMAIN IOEnv THEN atoi(IOEnv.CONN_MAXEDGES) ELSE 1
ConnNodes == IF "CONN_NODES4" \in DOMAIN IOEnv THEN UNodes ELSE {"a", "g", "i.q"}
ConnStatesOver(N) == UNION { { [nodes |-> N, ty |-> T, out |-> [x \in N |-> FALSE], edges |-> E, bbs |-> <<>>] :
                                 E \in {F \in SUBSET (N \X N) : Cardinality(F) <= ConnMaxEdges /\
                                          StLegalWiring([nodes |-> N, ty |-> T, out |-> [x \in N |-> FALSE], edges |-> F, bbs |-> <<>>])} }
                             : T \in [N -> TypesConn] }
InitConn == /\ \E N \in {M \in SUBSET ConnNodes : Cardinality(M) <= 3} : st \in ConnStatesOver(N)
            /\ removed = {} /\ last = "" /\ lastExc = ""
NextConn == \/ ConnectAct(L012(st.nodes) \ {<<>>}, L012(st.nodes) \ {<<>>})
            \/ ConnectAct({<<"zz">>}, L01(st.nodes)) \/ ConnectAct(L01(st.nodes), {<<"zz">>})
SpecConn == InitConn /\ [][NextConn]_vars

(* add-focused transitions: every legal state over <= 2 of three names (<= 1 edge), every add() call with a new /
   existing / digit-initial / dotted name, supported and unsupported types, fan-in and fan-out lists of length 0..2
   over the present names and one absent name, uid on and off. *)
AddNames == {"h", "a", "1n", "i.q"}
AddTypes == {"buf", "and", "input", "bb_output", "bb_input", "foo", "0"}
InitAdd == /\ \E N \in {M \in SUBSET {"a", "a_0", "i.q"} : Cardinality(M) <= 2} : st \in ConnStatesOver(N)
           /\ removed = {} /\ last = "" /\ lastExc = ""
NextAdd == AddAct(AddNames, AddTypes, L012(Here), L012(Here))
SpecAdd == InitAdd /\ [][NextAdd]_vars

(* composition-focused transitions: add_blackbox / add_subcircuit (children with and without a nested blackbox) /
   fill_blackbox from every legal state over <= 3 nodes with or without the registered instance i; with CGV_EMIT every
   transition is replayed on the real object. *)
CompTypes == {"buf", "and", "input", "bb_output", "bb_input"}
CompStatesOver(N) ==
  UNION { { [nodes |-> N, ty |-> T, out |-> [x \in N |-> FALSE], edges |-> E, bbs |-> B] :
              E \in {F \in SUBSET (N \X N) : Cardinality(F) <= 1 /\
                       StLegalWiring([nodes |-> N, ty |-> T, out |-> [x \in N |-> FALSE], edges |-> F, bbs |-> <<>>])},
              B \in {<<>>, ("i" :> FF)} }
          : T \in [N -> CompTypes] }
\* also states in which the caller has removed a pin node (and possibly put something else under its name)
InitComp == /\ removed \in SUBSET {"i.d", "i.q"}
            /\ \E N \in SUBSET {"a", "i.d", "i.q"} : st \in {s \in CompStatesOver(N) : StBBConsistent(s, removed)
                                                                   /\ (removed # {} => "i" \in DOMAIN s.bbs)}
            /\ last = "" /\ lastExc = ""
NextComp == AddSubAct \/ AddBlackboxAct \/ FillAct
SpecComp == InitComp /\ [][NextComp]_vars

Depth4 == TLCGet("level") <= 4
Depth2 == TLCGet("level") <= 1

TypeOK == StTypeOK(st)
LegalWiring == StLegalWiring(st)
BBConsistent == StBBConsistent(st, removed)
RejectedAddsNoEdge == [][lastExc' # "" => st'.edges \subseteq st.edges]_vars
UidFresh == [][\A n \in st.nodes : n \in st'.nodes \/ lastExc' # "" \/ TRUE]_vars
=============================================================================

----------------------------- MODULE JudgeGraph -----------------------------
(***************************************************************************)
(* C12: every graph query of the Circuit class against CGGraph.            *)
(* One event per graph; results are recorded per node and per node list.   *)
(* A result -1 in a depth field means "the call raised ValueError".        *)
(***************************************************************************)
EXTENDS CGGraph

SetOf(s) == Range(s)
\* e.q : sequence of [ns (seq of node idx), fanin, fanout, tfi, tfo, sp, ep (seqs), fid, fod (ints)]
QueryClauses(c, cyc, lt, lf, q) ==
  LET S == SetOf(q.ns)
      tag == "@" \o ToString(q.ns)
  IN (IF SetOf(q.fanin) = UNION {Range(c.fi[i]) : i \in S} THEN {} ELSE {"fanin" \o tag})
     \cup (IF SetOf(q.fanout) = UNION {FoSet(c, i) : i \in S} THEN {} ELSE {"fanout" \o tag})
     \cup (IF cyc THEN {} ELSE
           (IF SetOf(q.tfi) = Anc(c, S) THEN {} ELSE {"transitive_fanin" \o tag})
           \cup (IF SetOf(q.tfo) = Desc(c, S) THEN {} ELSE {"transitive_fanout" \o tag})
           \cup (IF SetOf(q.sp) = Startpoints(c, S) THEN {} ELSE {"startpoints" \o tag})
           \cup (IF SetOf(q.ep) = Endpoints(c, S) THEN {} ELSE {"endpoints" \o tag})
           \cup (IF q.fid = Max({lt[i] : i \in S}) THEN {} ELSE {"fanin_depth" \o tag})
           \cup (IF q.fod = Max({lf[i] : i \in S}) THEN {} ELSE {"fanout_depth" \o tag}))
     \cup (IF cyc /\ (q.fid # -1 \/ q.fod # -1) THEN {"depth_not_rejected_on_cyclic" \o tag} ELSE {})

\* e.kcuts : sequence of [n, k, cuts (seq of seq of idx)]
KcutClauses(c, kc) ==
  LET tag == "@" \o ToString(kc.n) \o "/" \o ToString(kc.k) IN
  UNION {
    (IF Cardinality(SetOf(kc.cuts[j])) <= kc.k THEN {} ELSE {"kcut_too_large" \o tag})
    \cup (IF Separates(c, SetOf(kc.cuts[j]), kc.n) THEN {} ELSE {"kcut_does_not_separate" \o tag})
    : j \in {x \in 1..Len(kc.cuts) : SetOf(kc.cuts[x]) # {kc.n}} }
  \cup (IF \E j \in 1..Len(kc.cuts) : SetOf(kc.cuts[j]) = {kc.n} THEN {} ELSE {"kcut_trivial_cut_missing" \o tag})


\* Beyond the statement of C12 (reported as DRIFT, information only): Circuit.paths and the plain accessors.
\* e.paths : sequence of [s, t, cutoff, ps (seq of seq of idx)];  e.acc : [nodes, io (seqs), edges (seq of <<u,v>>), len,
\* is_out (seq of BOOLEAN per node), ft (seq of [types (seq of STRING), ns (seq of idx)])]
PathClauses(c, q) ==
  LET tag == "@" \o ToString(q.s) \o ">" \o ToString(q.t) \o "/" \o ToString(q.cutoff) IN
  (IF SetOf(q.ps) = PathsWithin(c, q.s, q.t, q.cutoff) THEN {} ELSE {"DRIFT:paths" \o tag})
  \cup (IF Cardinality(SetOf(q.ps)) = Len(q.ps) THEN {} ELSE {"DRIFT:paths_repeated" \o tag})
AccessorClauses(c, a) ==
  (IF SetOf(a.nodes) = 1..c.n /\ Len(a.nodes) = c.n THEN {} ELSE {"DRIFT:nodes()"})
  \cup (IF SetOf(a.edges) = EdgeSet(c) /\ Len(a.edges) = Cardinality(EdgeSet(c)) THEN {} ELSE {"DRIFT:edges()"})
  \cup (IF SetOf(a.io) = IoSet(c) THEN {} ELSE {"DRIFT:io()"})
  \cup (IF a.len = c.n THEN {} ELSE {"DRIFT:len()"})
  \cup (IF a.is_out = c.out THEN {} ELSE {"DRIFT:is_output()"})
  \cup UNION {IF SetOf(a.ft[j].ns) = FilterType(c, SetOf(a.ft[j].types)) THEN {} ELSE {"DRIFT:filter_type@" \o ToString(a.ft[j].types)}
              : j \in 1..Len(a.ft)}
ExtraClauses(e) ==
  (IF "paths" \in DOMAIN e THEN UNION {PathClauses(e.c, e.paths[j]) : j \in 1..Len(e.paths)} ELSE {})
  \cup (IF "acc" \in DOMAIN e THEN AccessorClauses(e.c, e.acc) ELSE {})

Judge_graph(e) ==
  IF e.exc # "" THEN {"query_raised:" \o e.exc} ELSE        \* no query may raise on these graphs (depth queries on cyclic graphs are recorded as -1)
  LET c == e.c
      cyc == Cyclic(c)
  IN (IF WellFormedRec(c) THEN {} ELSE {"MACHINERY:malformed_record"})
     \cup (IF c.acyc /\ ~IsTopo(c) THEN {"MACHINERY:not_topological"} ELSE {})
     \cup (IF c.acyc = cyc THEN {"MACHINERY:acyc_hint_wrong"} ELSE {})
     \cup (IF e.cyclic = cyc THEN {} ELSE {"is_cyclic"})
     \cup (IF SetOf(e.sp_all) = StartSet(c) THEN {} ELSE {"startpoints()"})
     \cup (IF SetOf(e.ep_all) = EndSet(c) THEN {} ELSE {"endpoints()"})
     \cup (IF SetOf(e.ins_all) = Inputs(c) THEN {} ELSE {"inputs()"})
     \cup (IF SetOf(e.outs_all) = Outputs(c) THEN {} ELSE {"outputs()"})
     \cup (IF cyc THEN (IF e.levels_raised THEN {} ELSE {"levelize_not_rejected_on_cyclic"})
           ELSE LET lt == LongestTo(c) IN
                (IF e.levels_raised THEN {"levelize_raised:" \o e.levels_exc}
                 ELSE IF e.levels = lt THEN {} ELSE {"levelize"})
                \cup (IF IsTopoOrder(c, e.topo) THEN {} ELSE {"topo_sort"})
                \cup (IF SetOf(e.reconv) = Reconvergent(c) THEN {} ELSE {"reconvergent_fanout_nodes"})
                \cup (IF e.has_reconv = (Reconvergent(c) # {}) THEN {} ELSE {"has_reconvergent_fanout"})
                \cup UNION {KcutClauses(c, e.kcuts[j]) : j \in 1..Len(e.kcuts)})
     \cup (LET lt == IF cyc THEN <<>> ELSE LongestTo(c)
               lf == IF cyc THEN <<>> ELSE LongestFrom(c)
           IN UNION {QueryClauses(c, cyc, lt, lf, e.q[j]) : j \in 1..Len(e.q)})
     \cup ExtraClauses(e)
=============================================================================

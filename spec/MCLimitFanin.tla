---------------------------- MODULE MCLimitFanin ----------------------------
(***************************************************************************)
(* As-built model of tx.limit_fanin's loop for one gate G with K operands: *)
(* while G has more than Kmax fan-in, ANY two current fan-in nets (set     *)
(* iteration order is arbitrary) are moved behind a new gate of type       *)
(* GateMap[type(G)].  Checked for every gate type, every K in 3..6, every  *)
(* Kmax in 2..5 and every grouping order: G keeps its function at every    *)
(* step, and on termination every gate respects the bound.                 *)
(***************************************************************************)
EXTENDS Integers, FiniteSets, TLC

Multi == {"and", "nand", "or", "nor", "xor", "xnor"}
GateMap == [t \in Multi |-> CASE t = "and" -> "and" [] t = "nand" -> "and" [] t = "or" -> "or"
                              [] t = "nor" -> "or" [] t = "xor" -> "xor" [] t = "xnor" -> "xor"]   \* tx.py gatemap (after fix a971cae)
VARIABLES K, Kmax, ty, fi, next
vars == <<K, Kmax, ty, fi, next>>
All == 0 .. (2^K - 1)
Col(j) == {p \in All : (p \div (2^(j-1))) % 2 = 1}
SymDiff(a, b) == (a \ b) \cup (b \ a)
G == K + 1
MinOf(S) == CHOOSE m \in S : \A y \in S : m <= y
RECURSIVE Val(_), Fold(_,_,_)
Fold(op, S, acc) == IF S = {} THEN acc ELSE LET f == MinOf(S) IN
    Fold(op, S \ {f}, CASE op = "and" -> acc \cap Val(f) [] op = "or" -> acc \cup Val(f) [] op = "xor" -> SymDiff(acc, Val(f)))
Val(n) == IF n <= K THEN Col(n) ELSE
   LET t == ty[n] IN
   CASE t = "and" -> Fold("and", fi[n], All) [] t = "nand" -> All \ Fold("and", fi[n], All)
     [] t = "or" -> Fold("or", fi[n], {})    [] t = "nor" -> All \ Fold("or", fi[n], {})
     [] t = "xor" -> Fold("xor", fi[n], {})  [] t = "xnor" -> All \ Fold("xor", fi[n], {})
Init == /\ K \in 3..6 /\ Kmax \in 2..5
        /\ \E t \in Multi : ty = (G :> t)
        /\ fi = (G :> 1..K) /\ next = G + 1
Step == \E n \in DOMAIN fi : Cardinality(fi[n]) > Kmax /\
        \E f0 \in fi[n], f1 \in fi[n] : f0 # f1 /\
          /\ ty' = ty @@ (next :> GateMap[ty[n]])
          /\ fi' = [fi EXCEPT ![n] = (fi[n] \ {f0, f1}) \cup {next}] @@ (next :> {f0, f1})
          /\ next' = next + 1
          /\ UNCHANGED <<K, Kmax>>
Spec == Init /\ [][Step]_vars
RECURSIVE RefFold(_,_,_)
RefFold(op, j, acc) == IF j > K THEN acc ELSE
    RefFold(op, j+1, CASE op = "and" -> acc \cap Col(j) [] op = "or" -> acc \cup Col(j) [] op = "xor" -> SymDiff(acc, Col(j)))
Ref(t) == CASE t = "and" -> RefFold("and",1,All) [] t = "nand" -> All \ RefFold("and",1,All)
            [] t = "or" -> RefFold("or",1,{}) [] t = "nor" -> All \ RefFold("or",1,{})
            [] t = "xor" -> RefFold("xor",1,{}) [] t = "xnor" -> All \ RefFold("xor",1,{})
Terminated == \A n \in DOMAIN fi : Cardinality(fi[n]) <= Kmax
FunctionPreserved == Val(G) = Ref(ty[G])
BoundAtEnd == Terminated => \A n \in DOMAIN fi : Cardinality(fi[n]) <= Kmax
Terminates == <>Terminated
=============================================================================

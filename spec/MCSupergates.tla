----------------------------- MODULE MCSupergates -----------------------------
(***************************************************************************)
(* Model checking of the as-built supergates model: on every DAG shape     *)
(* with <= 6 nodes whose nodes have at most two operands, three gate       *)
(* typings, the relation of C17 (JudgeTx!Judge_supergates) is evaluated on *)
(* every block set the function can return.                                *)
(*   MCSupergates1 : circuits with ONE output               - holds.       *)
(*   MCSupergatesD : several outputs with disjoint cones    - holds.       *)
(*   MCSupergatesS : several outputs whose cones share gates - holds since *)
(*                   the repair that recognises a block found under two    *)
(*                   outputs as one block (the candidate repair was model- *)
(*                   checked here first; before it TLC returned outputs r  *)
(*                   and t = buf(r) over r = and(and(i1,i2), and(i3,i4))). *)
(***************************************************************************)
EXTENDS JudgeTx, CGFamilies, IOUtils

Strip(f) == {x \in f : ~HasPrefix(x, "DRIFT:")}
\* go: the relation is evaluated on the successor of each initial state (TLC checks initial states in one thread)
VARIABLES c0, single, go
vars == <<c0, single, go>>
Retyped(c, t) == [c EXCEPT !.ty = [q \in 1..c.n |-> IF c.ty[q] = "input" THEN "input"
                                                   ELSE IF Len(c.fi[q]) = 1 THEN (IF t = "and" THEN "buf" ELSE "not") ELSE t]]
Full == "MC_FULL" \in DOMAIN IOEnv            \* thorough tier: the 6-node shapes too
Shapes == {Retyped(c, t) : c \in {d \in DAG4(0) \cup DAG5(0) \cup (IF Full THEN DAG6(0) ELSE {}) : \A q \in 1..d.n : Len(d.fi[q]) <= 2},
                           t \in {"and", "xor", "nor"}}
\* three-level trees: i1..i4, m1 = f(i1,i2), m2 = f(i3,i4) | f(i2,i3) | f(i3), r = f(m1,m2), t = f(r) | f(r,i4) | f(r,m1);
\* outputs: t and any of m1, m2, r
TreeCirc(F6, F8, O, t) == Retyped(
  [name |-> "tree", n |-> 8, names |-> <<"i1", "i2", "i3", "i4", "m1", "m2", "r", "t">>,
   ty |-> <<"input", "input", "input", "input", "and", "and", "and", "and">>,
   out |-> [q \in 1..8 |-> q \in O],
   fi |-> << <<>>, <<>>, <<>>, <<>>, <<1, 2>>, F6, <<5, 6>>, F8 >>, bbs |-> <<>>, acyc |-> TRUE], t)
Trees == {TreeCirc(F6, F8, O \cup {8}, t) : F6 \in {<<3, 4>>, <<2, 3>>, <<3>>}, F8 \in {<<7>>, <<4, 7>>, <<5, 7>>},
                                             O \in SUBSET {5, 6, 7}, t \in {"and", "xor", "nor"}}
\* a middle block whose two operands both head blocks of their own: h1 = f(i1,i2), h2 = f(i3,i4), g = f(h1,h2), r = f(g,i5) | f(g)
Deep(F9, O, t) == Retyped(
  [name |-> "deep", n |-> 9, names |-> <<"i1", "i2", "i3", "i4", "i5", "h1", "h2", "g", "r">>,
   ty |-> <<"input", "input", "input", "input", "input", "and", "and", "and", "and">>,
   out |-> [q \in 1..9 |-> q \in O],
   fi |-> << <<>>, <<>>, <<>>, <<>>, <<>>, <<1, 2>>, <<3, 4>>, <<6, 7>>, F9 >>, bbs |-> <<>>, acyc |-> TRUE], t)
Deeps == {Deep(F9, O \cup {9}, t) : F9 \in {<<5, 8>>, <<8>>}, O \in {{}, {8}, {6}}, t \in {"and", "xor", "nor"}}
NOut(c) == Cardinality(Outputs(c))
\* two different outputs whose cones share a gate (the feature of known finding F-C17-shared-cones)
ConeGates(c, o) == {i \in AncClose(c, {o}) : c.ty[i] \in Gates}
Shared(c) == \E a \in Outputs(c), b \in Outputs(c) : a # b /\ ConeGates(c, a) \cap ConeGates(c, b) # {}
\* an output that also feeds other gates (5 nodes)
MarkOut(c, q) == [c EXCEPT !.out[q] = TRUE]
Loaded == {MarkOut(c, q) : c \in {d \in Shapes : d.n = 5}, q \in 1..5}
Multi == {c \in Shapes \cup {d \in Loaded : \A q \in 1..d.n : d.out[q] => d.ty[q] # "input"} \cup Trees : NOut(c) >= 2}
Init1 == go = FALSE /\ single = "one"  /\ c0 \in {c \in Shapes \cup Trees \cup Deeps : NOut(c) = 1}
InitD == go = FALSE /\ single = "disjoint" /\ c0 \in {c \in Multi : ~Shared(c)}
InitS == go = FALSE /\ single = "shared" /\ c0 \in {c \in Multi \cup Trees \cup Deeps : NOut(c) >= 2 /\ Shared(c)}
Next == go = FALSE /\ go' = TRUE /\ UNCHANGED <<c0, single>>
EventFor(R) == LET ord == SgTopo(ToNamed(c0), R, {}, <<>>) IN
  [c |-> c0, L |-> [j \in 1..Len(ord) |-> Indexed(ord[j].sg)], form |-> "list", wide |-> FALSE, superc |-> <<>>,
   exc |-> IF R # {} /\ ord = <<>> THEN "NetworkXUnfeasible" ELSE ""]
SupergatesOK == go => \A R \in SupergateResults(ToNamed(c0)) : Strip(Judge_supergates(EventFor(R))) = {}
=============================================================================

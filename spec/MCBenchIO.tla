------------------------------ MODULE MCBenchIO ------------------------------
(***************************************************************************)
(* Bench write -> read inside the model (C15 at specification level): for  *)
(* every circuit of G1 / G2 without x constants and with a primary input,  *)
(* every choice of the input that encodes the constants and every naming   *)
(* of the duplicate buffers: the written program denotes the circuit, the  *)
(* circuit read back satisfies the relation of C15, and the constants come *)
(* back as XOR / XNOR of an input with its own buffer.                     *)
(***************************************************************************)
EXTENDS CGBenchIO, CGLogic, CGFamilies

VARIABLES c0, ci
Fam == {c \in NoX(G1(0)) \cup G2ok(0) : Inputs(c) # {}}
Init == c0 \in Fam /\ ci \in InputNames(c0)
Next == UNCHANGED <<c0, ci>>
P == BenchWriterProgram(c0, ci)
IdxN(st) == [Indexed(st) EXCEPT !.name = c0.name]
WriterDenotes == ParseClauses(P, c0) = {}
BenchApplies == BenchModelApplies(P) /\ BenchReaderResults(P) # {}
RoundTripRel == \A r \in BenchReaderResults(P) : Judge_bench_roundtrip([c |-> c0, c2 |-> IdxN(r), exc |-> ""]) = {}
ReaderDenotes == \A r \in BenchReaderResults(P) : ParseClauses(P, IdxN(r)) = {}
ConstantsComeBackAsParityOfAnInput ==
  \A r \in BenchReaderResults(P) : \A i \in OfType(c0, {"0", "1"}) :
     LET n == c0.names[i] IN n \in r.nodes /\ r.ty[n] = (IF c0.ty[i] = "0" THEN "xor" ELSE "xnor")
                              /\ \E d \in r.nodes : FanIn(r, n) = {ci, d} /\ r.ty[d] = "buf" /\ FanIn(r, d) = {ci}
=============================================================================

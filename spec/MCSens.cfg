SPECIFICATION Spec
INVARIANT ReturnsMax
INVARIANT NeverNegative
CHECK_DEADLOCK FALSE

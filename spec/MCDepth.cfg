SPECIFICATION Spec
INVARIANT DepthIsLongestPath
INVARIANT AllReachedVisited
CHECK_DEADLOCK FALSE

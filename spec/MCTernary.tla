----------------------------- MODULE MCTernary -----------------------------
(***************************************************************************)
(* As-built model of tx.ternary's dual-rail construction, per gate type:   *)
(*   and/nand : X = (OR of operand X) AND NOR over operands of is_0(p),     *)
(*              is_0(p) = NOR(p, X_p)                                      *)
(*   or/nor   : X = (OR of operand X) AND NOR over operands of is_1(p),     *)
(*              is_1(p) = AND(p, NOT X_p)                                  *)
(*   buf/not  : X = X_p      xor/xnor : X = OR of operand X     0/1 : X = 0 *)
(* evaluated on truth-table sets over value bits and X bits of the inputs. *)
(* Checked for every G1 gate (all types, fan-in 1..4, constants 0/1 and a  *)
(* nested gate as operands): the companion equals Kleene X and the value   *)
(* outside X equals the Kleene value.                                      *)
(***************************************************************************)
EXTENDS CGSem, CGFamilies

\* as-built: binary value rail bv[i] and X rail xr[i] for every node, computed in topological order
RECURSIVE Rails(_,_,_,_,_,_)
Rails(c, U, inV, inX, i, acc) ==     \* acc : sequence of [v, x] (sets of patterns)
  IF i > c.n THEN acc
  ELSE LET t == c.ty[i]
           ops == [j \in 1..Len(c.fi[i]) |-> acc[c.fi[i][j]]]
           v == IF t = "input" THEN inV[i]
                ELSE IF t = "0" THEN {} ELSE IF t = "1" THEN U
                ELSE KGate(U, t, [j \in 1..Len(ops) |-> KCol(ops[j].v)]).one
           orX == UNION {ops[j].x : j \in 1..Len(ops)}
           is0(j) == U \ (ops[j].v \cup ops[j].x)
           is1(j) == ops[j].v \cap (U \ ops[j].x)
           x == IF t = "input" THEN inX[i]
                ELSE IF t \in {"0", "1"} THEN {}
                ELSE IF t \in {"and", "nand"} THEN orX \cap (U \ UNION {is0(j) : j \in 1..Len(ops)})
                ELSE IF t \in {"or", "nor"} THEN orX \cap (U \ UNION {is1(j) : j \in 1..Len(ops)})
                ELSE IF t \in {"buf", "not"} THEN ops[1].x
                ELSE orX
       IN Rails(c, U, inV, inX, i + 1, Append(acc, [v |-> v, x |-> x]))

TernaryOK(c) ==
  LET ins == Inputs(c)
      k == Cardinality(ins)
      U == AllTab[2 * k]
      pos(i) == Cardinality({j \in ins : j <= i})
      inV == [i \in ins |-> ColTab[2 * k][pos(i)]]
      inX == [i \in ins |-> ColTab[2 * k][k + pos(i)]]
      rails == Rails(c, U, inV, inX, 1, <<>>)
      vk == Eval(c, U, [i \in ins |-> [one |-> inV[i] \ inX[i], x |-> inX[i]]])
  IN \A i \in 1..c.n : rails[i].x = vk[i].x /\ rails[i].v \ vk[i].x = vk[i].one

VARIABLE c
Init == c \in NoX(G1(0))
Next == UNCHANGED c
Correct == TernaryOK(c)
=============================================================================

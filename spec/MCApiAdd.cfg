SPECIFICATION SpecAdd
INVARIANT TypeOK
INVARIANT LegalWiring
PROPERTY RejectedAddsNoEdge
CONSTRAINT Depth2
CHECK_DEADLOCK FALSE

INIT InitLimitFanout
NEXT Next
INVARIANT LimitFanoutOK

INIT InitLimitFanout
NEXT Next
INVARIANT LimitFanoutOK
CHECK_DEADLOCK FALSE

INIT InitAcyclicUnroll
NEXT Next
INVARIANT AcyclicUnrollOK
INVARIANT HintReadsFeedback

INIT InitAcyclicUnroll
NEXT Next
INVARIANT AcyclicUnrollOK
INVARIANT HintReadsFeedback
CHECK_DEADLOCK FALSE

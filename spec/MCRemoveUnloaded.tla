-------------------------- MODULE MCRemoveUnloaded --------------------------
(***************************************************************************)
(* As-built model of Circuit.remove_unloaded (CGApi!PopEffect): a worklist *)
(* seeded with the unloaded nodes; popping a node removes it and appends   *)
(* every fan-in node that thereby loses its last load.  The pop order is   *)
(* arbitrary here (the code pops from the end of a list built by iterating *)
(* sets).  Checked on every DAG shape with <= 5 nodes, every marking of    *)
(* outputs, sources as inputs or constants, both flag values, every pop    *)
(* order: at termination the circuit equals the DECLARATIVE result         *)
(* (exactly the dead gates/constants - and dead inputs if requested - are  *)
(* gone, everything else untouched), and a second run removes nothing.     *)
(***************************************************************************)
EXTENDS CGApi, CGFamilies, IOUtils

VARIABLES st0, st, wl, removed, inputs
vars == <<st0, st, wl, removed, inputs>>

Full == "RU_FULL" \in DOMAIN IOEnv
Init == /\ \E g \in DAG4(0) \cup DAG5(0) :
            LET base == ToNamed(g)
                im   == IdxMap(g)
                nfi  == [x \in NameSet(g) |-> Len(g.fi[im[x]])]
            IN \E const \in (IF Full THEN BOOLEAN ELSE {FALSE}) :
               \E outs \in {S \in SUBSET (1..g.n) : Cardinality(S) <= (IF Full THEN 2 ELSE 1)} :
                  st0 = [base EXCEPT !.ty  = [x \in NameSet(g) |-> IF nfi[x] = 0 THEN (IF const THEN "0" ELSE "input")
                                                                     ELSE IF nfi[x] = 1 THEN "not" ELSE "and"],
                                     !.out = [x \in NameSet(g) |-> im[x] \in outs]]
        /\ inputs \in BOOLEAN
        /\ st = st0 /\ removed = {} /\ wl = InitUnloaded(st0, inputs)
Pop == /\ wl # {}
       /\ \E n \in wl : LET r == PopEffect(st, wl, n, inputs) IN st' = r.st /\ wl' = r.wl /\ removed' = removed \cup {n}
       /\ UNCHANGED <<st0, inputs>>
Next == Pop
Spec == Init /\ [][Next]_vars
Done == wl = {}
MatchesSpec == Done => st = RemoveUnloadedSpec(st0, inputs) /\ removed = DeadSet(st0, inputs)
Idempotent  == Done => InitUnloaded(st, inputs) = {}
NeverDeletesLive == \A n \in removed : ~LiveNode(st0, n)
InputsKept == ~inputs => \A n \in st0.nodes : st0.ty[n] = "input" => n \in st.nodes
=============================================================================

------------------------------ MODULE JudgeLint ------------------------------
(***************************************************************************)
(* C20: utils.lint raises ValueError exactly when a documented rule is     *)
(* violated; outputs of library functions are lint-clean.                  *)
(* e.runs : sequence of [fail_fast, unloaded, undriven, single_input_gates,*)
(*          exc ("" = returned normally, else the exception type name)]    *)
(***************************************************************************)
EXTENDS CGLint

RunClauses(c, r) ==
  LET flags == [unloaded |-> r.unloaded, undriven |-> r.undriven, single_input_gates |-> r.single_input_gates]
      ok == LintOK(c, flags)
      tag == "@" \o (IF r.fail_fast THEN "F" ELSE "f") \o (IF r.unloaded THEN "L" ELSE "l")
                 \o (IF r.undriven THEN "D" ELSE "d") \o (IF r.single_input_gates THEN "S" ELSE "s")
  IN IF r.exc = "" THEN (IF ok THEN {} ELSE {"not_rejected:" \o ToString(Violated(c, flags)) \o tag})
     ELSE IF r.exc = "ValueError" THEN (IF ok THEN {"rejected_but_well_formed" \o tag} ELSE {})
     ELSE {"raised_" \o r.exc \o (IF ok THEN ":well_formed" ELSE ":" \o ToString(Violated(c, flags))) \o tag}

Judge_lint(e) ==
  (IF WellFormedRec(e.c) THEN {} ELSE {"MACHINERY:malformed_record"})
  \cup UNION {RunClauses(e.c, e.runs[j]) : j \in 1..Len(e.runs)}

(* result of a library function on lint-clean arguments: e.r the produced circuit, e.lint_exc what cg.lint did *)
Judge_lint_output(e) ==
  (IF WellFormedRec(e.r) THEN {} ELSE {"MACHINERY:malformed_record"})
  \cup (IF LintClean(e.r) THEN {} ELSE {"output_not_lint_clean:" \o e.producer \o ":" \o ToString(Violated(e.r, DefaultFlags))})
  \cup (IF e.lint_exc = "" THEN {} ELSE {"cg_lint_rejects_output:" \o e.producer})
=============================================================================

---------------------------- MODULE CGFamilies ----------------------------
(***************************************************************************)
(* Exhaustive small-scope families of circuits (shared by the generator    *)
(* GenCircuits and by the MC_* model-checking configurations).             *)
(*   G1: one gate of every type at every fan-in 1..4 (1 for buf/not) over  *)
(*       every choice of operands from {4 inputs, "0", "1", "x", not(i1)}. *)
(*   G2: all circuits with inputs a,b,c and two gates g1, g2 of any types, *)
(*       g1 over any non-empty subset of the inputs, g2 over any non-empty *)
(*       subset of inputs and g1 (4704 circuits).                          *)
(*   W : one wide gate (fan-in 3..6) of each multi-input type.             *)
(* Families take a dummy argument so that TLC does not evaluate all of them  *)
(* eagerly at start-up (zero-arity constant definitions are precomputed).   *)
(***************************************************************************)
EXTENDS CGTypes

Pool == << [nm |-> "i1", t |-> "input"], [nm |-> "i2", t |-> "input"], [nm |-> "i3", t |-> "input"],
           [nm |-> "i4", t |-> "input"], [nm |-> "k0", t |-> "0"], [nm |-> "k1", t |-> "1"],
           [nm |-> "kx", t |-> "x"], [nm |-> "h", t |-> "not"] >>
Ord8 == <<1,2,3,4,5,6,7,8>>
G1Circ(t, S) ==
  LET need == S \cup (IF 8 \in S THEN {1} ELSE {})
      sel  == SelectSeq(Ord8, LAMBDA p : p \in need)
      ops  == SelectSeq(Ord8, LAMBDA p : p \in S)
      n    == Len(sel) + 1
      pos(p) == CHOOSE q \in 1..Len(sel) : sel[q] = p
  IN [name |-> "g1fam", n |-> n,
      names |-> [q \in 1..n |-> IF q = n THEN "g" ELSE Pool[sel[q]].nm],
      ty    |-> [q \in 1..n |-> IF q = n THEN t ELSE Pool[sel[q]].t],
      out   |-> [q \in 1..n |-> q = n],
      fi    |-> [q \in 1..n |-> IF q = n THEN [j \in 1..Len(ops) |-> pos(ops[j])]
                                ELSE IF sel[q] = 8 THEN <<pos(1)>> ELSE <<>>],
      bbs |-> <<>>, acyc |-> TRUE]
G1(z) == {G1Circ(t, S) : t \in Gates1, S \in {{p} : p \in 1..8}}
      \cup {G1Circ(t, S) : t \in GatesN, S \in {T \in SUBSET (1..8) : Cardinality(T) \in 1..4}}

ArityOK(t, F) == F # {} /\ (t \in Gates1 => Cardinality(F) = 1)
Ord4 == <<1,2,3,4>>
G2Circ(t1, F1, t2, F2) ==
  [name |-> "g2fam", n |-> 5,
   names |-> <<"a", "b", "c", "g1", "g2">>,
   ty    |-> <<"input", "input", "input", t1, t2>>,
   out   |-> <<FALSE, FALSE, FALSE, ~(4 \in F2), TRUE>>,
   fi    |-> << <<>>, <<>>, <<>>, SelectSeq(Ord4, LAMBDA p : p \in F1), SelectSeq(Ord4, LAMBDA p : p \in F2) >>,
   bbs |-> <<>>, acyc |-> TRUE]
G2(z) == {G2Circ(t1, F1, t2, F2) : t1 \in Gates, F1 \in SUBSET (1..3), t2 \in Gates, F2 \in SUBSET (1..4)}
G2ok(z) == {c \in G2(z) : ArityOK(c.ty[4], Range(c.fi[4])) /\ ArityOK(c.ty[5], Range(c.fi[5]))}

WCirc(t, m) ==
  [name |-> "wfam", n |-> m + 1,
   names |-> [q \in 1..(m+1) |-> IF q = m + 1 THEN "g" ELSE "i" \o ToString(q)],
   ty    |-> [q \in 1..(m+1) |-> IF q = m + 1 THEN t ELSE "input"],
   out   |-> [q \in 1..(m+1) |-> q = m + 1],
   fi    |-> [q \in 1..(m+1) |-> IF q = m + 1 THEN [j \in 1..m |-> j] ELSE <<>>],
   bbs |-> <<>>, acyc |-> TRUE]
W(z) == {WCirc(t, m) : t \in GatesN, m \in 3..6}

(* graph shapes: all DAGs on n nodes whose labelling is topological (every DAG shape up to isomorphism) and
   all digraphs without self-loops on 4 labelled nodes (cyclic ones included; acyc is recomputed by the harness) *)
PairsLT(n) == {e \in (1..n) \X (1..n) : e[1] < e[2]}
PairsNE(n) == {e \in (1..n) \X (1..n) : e[1] # e[2]}
OrdN(n) == [q \in 1..n |-> q]
GraphCirc(n, E) ==
  [name |-> "gfam", n |-> n, names |-> [q \in 1..n |-> "n" \o ToString(q)],
   ty  |-> [q \in 1..n |-> IF \E e \in E : e[2] = q THEN "and" ELSE "input"],
   out |-> [q \in 1..n |-> ~\E e \in E : e[1] = q],
   fi  |-> [q \in 1..n |-> SelectSeq(OrdN(n), LAMBDA p : <<p, q>> \in E)],
   bbs |-> <<>>, acyc |-> TRUE]
DAG4(z) == {GraphCirc(4, E) : E \in SUBSET PairsLT(4)}
DAG5(z) == {GraphCirc(5, E) : E \in SUBSET PairsLT(5)}
DAG6(z) == {GraphCirc(6, E) : E \in SUBSET PairsLT(6)}
DG3(z) == {GraphCirc(3, E) : E \in SUBSET PairsNE(3)}
DG4(z) == {GraphCirc(4, E) : E \in SUBSET PairsNE(4)}
(* ill-formed and well-formed two-node graphs for lint: every pair of names from {a, b, i.d, i.q}, every pair of
   type attributes (supported, missing, unsupported), every edge set incl. self-loops, with/without instance i *)
LTypes == Supported \cup {NoType, "foo"}
LPairs == { <<"a","b">>, <<"a","i.d">>, <<"a","i.q">>, <<"b","i.q">>, <<"i.d","i.q">>, <<"b","i.d">> }
LRegs  == { <<>>, << [inst |-> "i", type |-> "ff", ins |-> <<"d">>, outs |-> <<"q">>] >> }
LintCirc(nm, t1, t2, E, o1, reg) ==
  [name |-> "lfam", n |-> 2, names |-> nm, ty |-> <<t1, t2>>, out |-> <<o1, FALSE>>,
   fi |-> << SelectSeq(<<1,2>>, LAMBDA p : <<p,1>> \in E), SelectSeq(<<1,2>>, LAMBDA p : <<p,2>> \in E) >>,
   bbs |-> reg, acyc |-> FALSE]
L2(z) == {LintCirc(nm, t1, t2, E, o1, reg) : nm \in LPairs, t1 \in LTypes, t2 \in LTypes,
                                          E \in SUBSET ((1..2) \X (1..2)), o1 \in BOOLEAN, reg \in LRegs}
NoX(F) == {c \in F : "x" \notin Range(c.ty)}
=============================================================================

------------------------------- MODULE MCHeap -------------------------------
EXTENDS CGHeap
SpecGood == Init /\ [][NextGood]_vars
SpecBad  == Init /\ [][NextBad]_vars
=============================================================================

------------------------------- MODULE CGTxMisc -------------------------------
(***************************************************************************)
(* As-built models of the remaining small transforms of circuitgraph.tx:   *)
(* strip_io / strip_inputs / strip_outputs, relabel, subcircuit (see       *)
(* CGSupergates!SubcircuitModel) and sensitivity_transform, the latter as  *)
(* the same program over the construction API the Python code runs (copy   *)
(* `orig`, one copy `inv_<s>` per startpoint with that startpoint          *)
(* inverted, XOR comparators feeding a popcount from CGLogic).  The        *)
(* enumeration order of the startpoints (a Python set) decides which       *)
(* popcount input a comparator drives: SensitivityResults is the set over  *)
(* all orders.  Judge_as_built / Judge_sensitivity_transform report drift  *)
(* when the circuit the real function returned is not the model's.         *)
(***************************************************************************)
EXTENDS CGSupergates

StripInputsModel(c)  == [c EXCEPT !.ty  = [x \in c.nodes |-> IF c.ty[x] = "input" THEN "buf" ELSE c.ty[x]]]
StripOutputsModel(c) == [c EXCEPT !.out = [x \in c.nodes |-> FALSE]]
StripIoModel(c)      == StripOutputsModel(StripInputsModel(c))
\* mapping : sequence of <<old, new>>; networkx relabel_nodes(copy=True): a plain renaming (injective here)
RelabelModel(c, mapping) ==
  LET f(x) == IF \E j \in 1..Len(mapping) : mapping[j][1] = x THEN mapping[CHOOSE j \in 1..Len(mapping) : mapping[j][1] = x][2] ELSE x
  IN Relabel(c, f)

RECURSIVE SenCopies(_,_,_,_,_,_)
SenCopies(st, sub, n, sp, i, all) ==
  IF i > Len(sp) THEN st
  ELSE LET s0 == sp[i]
           inst == "inv_" \o s0
           s1 == SubC(st, sub, inst, <<>>)
           RECURSIVE Wire(_,_)
           Wire(s, j) == IF j > Len(all) THEN s
                         ELSE LET t == Pfx(inst, all[j]) IN
                              Wire(IF all[j] # s0 THEN Conn1(s, all[j], t) ELSE Conn1(SetTypeRes(s, <<t>>, "not").st, s0, t), j + 1)
           s2 == Wire(s1, 1)
           s3 == AddN(s2, "dif_out_" \o s0, "xor", <<Pfx("orig", n), Pfx(inst, n)>>, <<"pc_in_" \o ToString(i - 1)>>, TRUE)
       IN SenCopies(s3, sub, n, sp, i + 1, all)
\* sp : the startpoints of n in enumeration order
SensitivityModel(c, n, sp) ==
  LET N == BackClose(c, {n})
      sub == Restrict(c, N)
      s1 == SubC(EmptySt, sub, "orig", <<>>)
      RECURSIVE Ins(_,_)
      Ins(s, j) == IF j > Len(sp) THEN s ELSE Ins(AddN(s, sp[j], "input", <<>>, <<Pfx("orig", sp[j])>>, FALSE), j + 1)
      s2 == Ins(s1, 1)
      s3 == SubC(s2, Popcount(Len(sp)), "pc", <<>>)
      s4 == SenCopies(s3, sub, n, sp, 1, sp)
      RECURSIVE Outs(_,_)
      Outs(s, o) == IF o >= LClog2(Len(sp) + 1) THEN s
                    ELSE Outs(AddN(s, "sen_out_" \o ToString(o), "buf", <<"pc_out_" \o ToString(o)>>, <<>>, TRUE), o + 1)
  IN Outs(s4, 0)
SeqsOf(S) == {s \in [1..Cardinality(S) -> S] : \A a, b \in 1..Cardinality(S) : a # b => s[a] # s[b]}
SensitivityResults(c, n) ==
  LET sp == BackClose(c, {n}) \cap {x \in c.nodes : c.ty[x] \in {"input", "bb_output"}}
  IN {SensitivityModel(c, n, s) : s \in SeqsOf(sp)}

(* e.fn, e.c, e.r and the arguments of the call; drift only *)
Judge_as_built(e) ==
  IF ~(WellFormedRec(e.c) /\ WellFormedRec(e.r)) \/ e.c.n > 16 THEN {}
  ELSE LET c == ToNamed(e.c)
           m == CASE e.fn = "tx.strip_io" -> StripIoModel(c)
                  [] e.fn = "tx.strip_inputs" -> StripInputsModel(c)
                  [] e.fn = "tx.strip_outputs" -> StripOutputsModel(c)
                  [] e.fn = "tx.relabel" -> RelabelModel(c, e.mapping)
                  [] e.fn = "tx.subcircuit" -> SubcircuitModel([c EXCEPT !.bbs = <<>>], Range(e.nodes), e.modify_io)
                  [] OTHER -> ToNamed(e.r)
       IN IF ToNamed(e.r) # m THEN {"DRIFT:" \o e.fn \o "_differs_from_as_built_model"} ELSE {}
=============================================================================

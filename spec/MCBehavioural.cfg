INIT InitB
NEXT NextB
INVARIANT BehaviouralRoundTrip
INVARIANT BehaviouralWriterDenotes
CHECK_DEADLOCK FALSE

------------------------------- MODULE CGHeap -------------------------------
(***************************************************************************)
(* C19: frame conditions.  A Circuit object has two separately allocated   *)
(* mutable parts, its graph and its blackbox registry; objects are         *)
(* references to parts.  A function call may read its arguments and        *)
(* allocate results; an edit changes exactly one part.                     *)
(*                                                                         *)
(* This module states the two frame properties on that heap model          *)
(* (ArgsUnchanged, NoSharing) and MCHeap checks that NoSharing is exactly  *)
(* what makes edits of one object invisible through another - so that the  *)
(* behavioural probes recorded from the real code (edit the result, look   *)
(* at the argument, and vice versa) decide sharing.                        *)
(***************************************************************************)
EXTENDS Integers, FiniteSets, TLC

CONSTANTS Objs, Refs, Vals
VARIABLES heap,     \* Refs -> Vals        : contents of every allocated part
          obj,      \* Objs -> [g, b] refs : live objects (partial function)
          lastArgs, lastPre
vars == <<heap, obj, lastArgs, lastPre>>

Live == DOMAIN obj
View(o) == [g |-> heap[obj[o].g], b |-> heap[obj[o].b]]          \* the abstract circuit an object denotes
FreeRefs == Refs \ ({obj[o].g : o \in Live} \cup {obj[o].b : o \in Live})

Init == /\ heap = [r \in Refs |-> CHOOSE v \in Vals : TRUE]
        /\ obj = <<>> /\ lastArgs = {} /\ lastPre = <<>>
New == \E o \in Objs \ Live, rg \in FreeRefs, rb \in FreeRefs, vg \in Vals, vb \in Vals :
          /\ rg # rb
          /\ obj' = (o :> [g |-> rg, b |-> rb]) @@ obj
          /\ heap' = [heap EXCEPT ![rg] = vg, ![rb] = vb]
          /\ lastArgs' = {} /\ lastPre' = <<>>
\* a correct transform: fresh parts holding copies (possibly transformed: any value)
GoodCall == \E a \in Live, o \in Objs \ Live, rg \in FreeRefs, rb \in FreeRefs, vg \in Vals :
          /\ rg # rb
          /\ obj' = (o :> [g |-> rg, b |-> rb]) @@ obj
          /\ heap' = [heap EXCEPT ![rg] = vg, ![rb] = heap[obj[a].b]]
          /\ lastArgs' = {a} /\ lastPre' = [x \in {a} |-> View(a)]
\* a defective transform: the result shares the registry (or the graph) with its argument
AliasCall == \E a \in Live, o \in Objs \ Live, rg \in FreeRefs, shareG \in BOOLEAN :
          /\ obj' = (o :> [g |-> IF shareG THEN obj[a].g ELSE rg, b |-> IF shareG THEN rg ELSE obj[a].b]) @@ obj
          /\ heap' = heap
          /\ lastArgs' = {a} /\ lastPre' = [x \in {a} |-> View(a)]
\* a defective transform that edits its argument
MutatingCall == \E a \in Live, v \in Vals : /\ heap' = [heap EXCEPT ![obj[a].g] = v] /\ obj' = obj
          /\ lastArgs' = {a} /\ lastPre' = [x \in {a} |-> View(a)]
Edit == \E o \in Live, part \in {"g", "b"}, v \in Vals :
          /\ heap' = [heap EXCEPT ![IF part = "g" THEN obj[o].g ELSE obj[o].b] = v]
          /\ obj' = obj /\ lastArgs' = {} /\ lastPre' = <<>>

NextGood == New \/ GoodCall \/ Edit
NextBad  == New \/ GoodCall \/ Edit \/ AliasCall \/ MutatingCall

(* the two frame properties of C19 *)
NoSharing == \A o1, o2 \in Live : o1 # o2 => {obj[o1].g, obj[o1].b} \cap {obj[o2].g, obj[o2].b} = {}
ArgsUnchanged == \A a \in lastArgs : View(a) = lastPre[a]
\* behavioural reading used on recorded traces: an edit of one object never changes the view of another
Isolated == [][(lastArgs' = {} /\ obj' = obj) =>
                Cardinality({o \in Live : View(o)' # View(o)}) <= 1]_vars
=============================================================================

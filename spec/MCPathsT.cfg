SPECIFICATION Spec
INVARIANT YieldsExactlyThePaths
INVARIANT NothingWrongOnTheWay
INVARIANT DefinitionSane
CHECK_DEADLOCK FALSE
CONSTANT WithDag5 = TRUE

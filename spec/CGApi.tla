------------------------------- MODULE CGApi -------------------------------
(***************************************************************************)
(* The construction API of circuitgraph.Circuit as a state machine.        *)
(*                                                                         *)
(* Abstract state (named form):                                            *)
(*   [nodes, ty : nodes -> type, out : nodes -> BOOLEAN,                   *)
(*    edges \subseteq nodes \X nodes, bbs : instance -> [type, ins, outs]] *)
(*                                                                         *)
(* Every public call is an operator from the pre-state and the arguments   *)
(* to a result [ok, exc, st, ret], composed exactly at the points where    *)
(* the Python code can raise, so that "raised after a partial effect" is a *)
(* value the model can produce (AS BUILT).  List arguments are sequences   *)
(* (duplicates matter: the code counts list lengths); set-valued loops     *)
(* take the iteration order as an explicit sequence argument.              *)
(***************************************************************************)
EXTENDS CGTypes

EmptySt == [nodes |-> {}, ty |-> <<>>, out |-> <<>>, edges |-> {}, bbs |-> <<>>]
FanIn(st, v)  == {e[1] : e \in {x \in st.edges : x[2] = v}}
FanOut(st, u) == {e[2] : e \in {x \in st.edges : x[1] = u}}
Ok(st)        == [ok |-> TRUE,  exc |-> "", st |-> st, ret |-> ""]
OkRet(st, r)  == [ok |-> TRUE,  exc |-> "", st |-> st, ret |-> r]
Err(st, x)    == [ok |-> FALSE, exc |-> x,  st |-> st, ret |-> ""]

\* graph.add_node(n, type=t, output=o): creates the node or overwrites both attributes
AddNode(st, n, t, o) ==
  [st EXCEPT !.nodes = st.nodes \cup {n},
             !.ty  = [x \in st.nodes \cup {n} |-> IF x = n THEN t ELSE st.ty[x]],
             !.out = [x \in st.nodes \cup {n} |-> IF x = n THEN o ELSE st.out[x]]]
RemoveNodes(st, S) ==
  LET N == st.nodes \ S IN
  [st EXCEPT !.nodes = N, !.ty = [x \in N |-> st.ty[x]], !.out = [x \in N |-> st.out[x]],
             !.edges = {e \in st.edges : e[1] \in N /\ e[2] \in N}]

(* ---- connect(us, vs): every check precedes every effect ---- *)
ConnectRes(st, us, vs) ==
  IF Len(us) = 0 \/ Len(vs) = 0 THEN Ok(st)
  ELSE IF ~(Range(us) \subseteq st.nodes /\ Range(vs) \subseteq st.nodes) THEN Err(st, "ValueError")
  ELSE IF \E v \in Range(vs) : st.ty[v] \in NoFanin THEN Err(st, "ValueError")
  ELSE IF \E v \in Range(vs) : st.ty[v] \in OneFanin /\ Cardinality(FanIn(st, v)) + Len(us) > 1 THEN Err(st, "ValueError")
  ELSE IF \E u \in Range(us) : st.ty[u] = "bb_input" THEN Err(st, "ValueError")
  ELSE IF \E u \in Range(us) : st.ty[u] = "bb_output"
                               /\ ((\E v \in Range(vs) : st.ty[v] # "buf")
                                   \/ Cardinality(FanOut(st, u)) + Len(vs) > 1) THEN Err(st, "ValueError")
  ELSE Ok([st EXCEPT !.edges = st.edges \cup (Range(us) \X Range(vs))])

DisconnectRes(st, us, vs) == Ok([st EXCEPT !.edges = st.edges \ (Range(us) \X Range(vs))])
RemoveRes(st, ns)         == Ok(RemoveNodes(st, Range(ns)))

\* set_output(ns, val): nodes are updated one by one; a missing node raises KeyError after the earlier updates
RECURSIVE SetOutputFrom(_,_,_,_)
SetOutputFrom(st, ns, val, i) ==
  IF i > Len(ns) THEN Ok(st)
  ELSE IF ns[i] \notin st.nodes THEN Err(st, "KeyError")
  ELSE SetOutputFrom([st EXCEPT !.out[ns[i]] = val], ns, val, i + 1)
SetOutputRes(st, ns, val) == SetOutputFrom(st, ns, val, 1)

\* set_type(ns, t)
RECURSIVE SetTypeFrom(_,_,_,_)
SetTypeFrom(st, ns, t, i) ==
  IF i > Len(ns) THEN Ok(st)
  ELSE IF ns[i] \notin st.nodes THEN Err(st, "KeyError")
  ELSE SetTypeFrom([st EXCEPT !.ty[ns[i]] = t], ns, t, i + 1)
SetTypeRes(st, ns, t) == IF t \notin Addable THEN Err(st, "ValueError") ELSE SetTypeFrom(st, ns, t, 1)

(* ---- uid(n): n, n_0, n_1, ... n_10, n_70, n_490, ... (x7 for ever; the suffixes are kept as decimal STRINGS because
   TLC's integers are 32-bit and the code's are not) ---- *)
DigitOf(ch) == CHOOSE d \in 0..9 : ToString(d) = ch
RECURSIVE Mul7From(_,_,_)
Mul7From(s, i, carry) == IF i = 0 THEN (IF carry = 0 THEN "" ELSE ToString(carry))
                         ELSE LET v == DigitOf(SubSeq(s, i, i)) * 7 + carry IN Mul7From(s, i - 1, v \div 10) \o ToString(v % 10)
RECURSIVE UidSuffix(_)
UidSuffix(j) == IF j <= 11 THEN ToString(j - 1) ELSE Mul7From(UidSuffix(j - 1), Len(UidSuffix(j - 1)), 0)     \* j = 1, 2, ...
UidSteps == <<0, 1, 2, 3, 4, 5, 6, 7, 8, 9, 10, 70, 490, 3430, 24010, 168070, 1176490, 8235430, 57648010, 403536070>>
MaxUidTries == 60
RECURSIVE UidFrom(_,_,_)
UidFrom(st, n, j) == IF j > MaxUidTries THEN n \o "_overflow"
                     ELSE LET cand == n \o "_" \o UidSuffix(j) IN
                          IF cand \in st.nodes THEN UidFrom(st, n, j + 1) ELSE cand
Uid(st, n) == IF n \notin st.nodes THEN n ELSE UidFrom(st, n, 1)

(* ---- add(n, type, fanin, fanout, output, uid)  (default add_connected_nodes / allow_redefinition) ----
   pre-checks; node creation; connect(n, fanout); connect(fanin, n).  If either connect is rejected the new node
   (and with it the fan-out edges) is removed again: a rejected call leaves the state unchanged.
   (Before fix cc13e5c the node and the fan-out edges stayed - AddResPartial documents that behaviour.) *)
AddResPartial(st, n0, t, fanin, fanout, o, uid) ==
  LET n == IF uid THEN Uid(st, n0) ELSE n0 IN
  IF ~uid /\ n0 \in st.nodes THEN Err(st, "ValueError")
  ELSE IF t \notin Supported THEN Err(st, "ValueError")
  ELSE IF Len(fanin) > 1 /\ t \in {"buf", "not"} THEN Err(st, "ValueError")
  ELSE IF Len(fanin) > 0 /\ t \in {"0", "1", "x", "input"} THEN Err(st, "ValueError")
  ELSE IF StartsWithDigit(n) THEN Err(st, "ValueError")
  ELSE LET st1 == AddNode(st, n, t, o)
           r1  == ConnectRes(st1, <<n>>, fanout)
       IN IF ~r1.ok THEN Err(st1, r1.exc)
          ELSE LET r2 == ConnectRes(r1.st, fanin, <<n>>)
               IN IF r2.ok THEN OkRet(r2.st, n) ELSE Err(r1.st, r2.exc)
AddRes(st, n0, t, fanin, fanout, o, uid) ==
  LET r == AddResPartial(st, n0, t, fanin, fanout, o, uid) IN IF r.ok THEN r ELSE Err(st, r.exc)

(* ---- add_blackbox(bb, name, conns): register; add pins (ins then outs, in the given order); connect
   bb = [type, ins, outs]; insOrd / outsOrd : iteration order of the pin sets; conns : sequence of <<pin, targets>> *)
RECURSIVE AddPinsFrom(_,_,_,_,_)
AddPinsFrom(st, name, pins, t, i) ==
  IF i > Len(pins) THEN Ok(st)
  ELSE LET r == AddRes(st, Pin(name, pins[i]), t, <<>>, <<>>, FALSE, FALSE) IN
       IF r.ok THEN AddPinsFrom(r.st, name, pins, t, i + 1) ELSE Err(r.st, r.exc)
RECURSIVE BBConnFrom(_,_,_,_,_)
BBConnFrom(st, bb, name, conns, i) ==
  IF i > Len(conns) THEN Ok(st)
  ELSE LET p == conns[i][1]
           tg == conns[i][2]
           r == IF p \in bb.ins THEN ConnectRes(st, tg, <<Pin(name, p)>>)
                ELSE IF p \in bb.outs THEN ConnectRes(st, <<Pin(name, p)>>, tg)
                ELSE Err(st, "ValueError")
       IN IF r.ok THEN BBConnFrom(r.st, bb, name, conns, i + 1) ELSE Err(r.st, r.exc)
AddBlackboxRes(st, bb, name, insOrd, outsOrd, conns) ==
  IF name \in DOMAIN st.bbs THEN Err(st, "ValueError")
  ELSE IF StartsWithDigit(name) THEN Err(st, "ValueError")
  ELSE IF \E p \in bb.ins \cup bb.outs : Pin(name, p) \in st.nodes THEN Err(st, "ValueError")
  ELSE LET st1 == [st EXCEPT !.bbs = (name :> bb) @@ st.bbs]
           r1  == AddPinsFrom(st1, name, insOrd, "bb_input", 1)
       IN IF ~r1.ok THEN Err(st, r1.exc)
          ELSE LET r2 == AddPinsFrom(r1.st, name, outsOrd, "bb_output", 1)
               IN IF ~r2.ok THEN Err(st, r2.exc)
                  ELSE LET r3 == BBConnFrom(r2.st, bb, name, conns, 1)
                       IN IF r3.ok THEN r3 ELSE Err(st, r3.exc)     \* rejected: pins and registry entry undone

(* ---- merging a relabelled child graph (graph.update): nodes get the child's attributes, edges are added ---- *)
Merge(st, sc, name) ==
  LET new == {Pfx(name, n) : n \in sc.nodes}
      N == st.nodes \cup new
      orig(x) == CHOOSE n \in sc.nodes : Pfx(name, n) = x
  IN [st EXCEPT !.nodes = N,
                !.ty  = [x \in N |-> IF x \in new THEN sc.ty[orig(x)] ELSE st.ty[x]],
                !.out = [x \in N |-> IF x \in new THEN sc.out[orig(x)] ELSE st.out[x]],
                !.edges = st.edges \cup {<<Pfx(name, e[1]), Pfx(name, e[2])>> : e \in sc.edges}]
ScInputs(sc)  == {n \in sc.nodes : sc.ty[n] = "input"}
ScOutputs(sc) == {n \in sc.nodes : sc.out[n]}
PrefixBBs(st, sc, name) == [st EXCEPT !.bbs = [b \in {Pfx(name, k) : k \in DOMAIN sc.bbs} |->
                                                  sc.bbs[CHOOSE k \in DOMAIN sc.bbs : Pfx(name, k) = b]] @@ st.bbs]

(* ---- add_subcircuit(sc, name, conns, strip_io): conns : sequence of <<child io name, targets>> ---- *)
RECURSIVE SubConnFrom(_,_,_,_,_)
SubConnFrom(st, sc, name, conns, i) ==
  IF i > Len(conns) THEN Ok(st)
  ELSE LET k == conns[i][1]
           tg == conns[i][2]
           r == IF k \in ScInputs(sc) THEN ConnectRes(st, tg, <<Pfx(name, k)>>)
                ELSE IF k \in ScOutputs(sc) THEN ConnectRes(st, <<Pfx(name, k)>>, tg)
                ELSE Ok(st)
       IN IF r.ok THEN SubConnFrom(r.st, sc, name, conns, i + 1) ELSE Err(r.st, r.exc)
AddSubcircuitRes(st, sc, name, conns, strip) ==
  IF \E k \in DOMAIN sc.bbs : Pfx(name, k) \in DOMAIN st.bbs THEN Err(st, "ValueError")
  ELSE IF \E n \in sc.nodes : Pfx(name, n) \in st.nodes THEN Err(st, "ValueError")
  ELSE IF \E i \in 1..Len(conns) : conns[i][1] \notin ScInputs(sc) \cup ScOutputs(sc) THEN Err(st, "ValueError")
  ELSE LET st1 == Merge(st, sc, name)
           st2 == IF ~strip THEN st1
                  ELSE [st1 EXCEPT !.ty  = [x \in st1.nodes |-> IF x \in {Pfx(name, n) : n \in ScInputs(sc)} THEN "buf" ELSE st1.ty[x]],
                                   !.out = [x \in st1.nodes |-> IF x \in {Pfx(name, n) : n \in ScOutputs(sc)} THEN FALSE ELSE st1.out[x]]]
           st3 == PrefixBBs(st2, sc, name)
           r == SubConnFrom(st3, sc, name, conns, 1)
       IN IF r.ok THEN r ELSE Err(st, r.exc)                      \* rejected: the merge is undone

(* ---- fill_blackbox(name, sc) ---- *)
Relabel(st, f(_)) ==       \* in-place renaming with an injective-on-use map; a target that exists is overwritten
  LET N == {f(x) : x \in st.nodes}
      src(y) == CHOOSE x \in st.nodes : f(x) = y
  IN [st EXCEPT !.nodes = N, !.ty = [y \in N |-> st.ty[src(y)]], !.out = [y \in N |-> st.out[src(y)]],
                !.edges = {<<f(e[1]), f(e[2])>> : e \in st.edges}]
FillBlackboxRes(st, name, sc) ==
  IF name \notin DOMAIN st.bbs THEN Err(st, "ValueError")
  ELSE IF \E k \in DOMAIN sc.bbs : Pfx(name, k) \in DOMAIN st.bbs THEN Err(st, "ValueError")
  ELSE IF ScInputs(sc) # st.bbs[name].ins \/ ScOutputs(sc) # st.bbs[name].outs THEN Err(st, "ValueError")
  ELSE IF \E n \in sc.nodes : Pfx(name, n) \in st.nodes THEN Err(st, "ValueError")
  ELSE IF \/ \E p \in st.bbs[name].ins  : Pin(name, p) \in st.nodes /\ st.ty[Pin(name, p)] # "bb_input"
          \/ \E p \in st.bbs[name].outs : Pin(name, p) \in st.nodes /\ st.ty[Pin(name, p)] # "bb_output"
       THEN Err(st, "ValueError")                               \* pin nodes must still be pins (fix in fill_blackbox)
  ELSE LET bb   == st.bbs[name]
           pins == {Pin(name, p) : p \in bb.ins \cup bb.outs}
           ren(x) == IF x \in pins THEN Pfx(name, SubSeq(x, Len(name) + 2, Len(x))) ELSE x
           st1 == Relabel(st, ren)
           st2 == Merge(st1, sc, name)
           st3 == [st2 EXCEPT !.ty  = [x \in st2.nodes |-> IF x \in {Pfx(name, p) : p \in bb.ins} THEN "buf" ELSE st2.ty[x]],
                              !.out = [x \in st2.nodes |-> IF x \in {Pfx(name, p) : p \in bb.outs} THEN FALSE ELSE st2.out[x]]]
           st4 == [st3 EXCEPT !.bbs = [b \in DOMAIN st3.bbs \ {name} |-> st3.bbs[b]]]
       IN Ok(PrefixBBs(st4, sc, name))

(* ---- remove_unloaded(inputs): worklist; pop order = the order argument (a sequence of choices) ----
   The initial worklist holds every node that is not a bb_input, not an output and has no fan-out - primary
   inputs and blackbox outputs only when `inputs` is set (before the fix they were always included). *)
InitUnloaded(st, inputs) == {n \in st.nodes : st.ty[n] # "bb_input" /\ ~st.out[n] /\ FanOut(st, n) = {}
                                            /\ (inputs \/ st.ty[n] \notin {"input", "bb_output"})}
\* one pop of node n from the worklist wl (a set here; the code uses a list, duplicates cannot arise in a DAG)
PopEffect(st, wl, n, inputs) ==
  LET more == {f \in FanIn(st, n) : ~(~inputs /\ st.ty[f] \in {"input", "bb_output"})
                                    /\ ~st.out[f] /\ Cardinality(FanOut(st, f)) = 1}
  IN [st |-> RemoveNodes(st, {n}), wl |-> (wl \ {n}) \cup more]
RECURSIVE RemoveUnloadedRun(_,_,_,_)
\* deterministic run that always pops the least name (any order gives the same final state in a DAG: checked by MC)
RemoveUnloadedRun(st, wl, inputs, removed) ==
  IF wl = {} THEN [st |-> st, removed |-> removed]
  ELSE LET n == CHOOSE x \in wl : TRUE
           r == PopEffect(st, wl, n, inputs)
       IN RemoveUnloadedRun(r.st, r.wl, inputs, removed \cup {n})
RemoveUnloadedAsBuilt(st, inputs) == RemoveUnloadedRun(st, InitUnloaded(st, inputs), inputs, {})

(* ---- C16: the declarative meaning of remove_unloaded ---- *)
RECURSIVE FwdClose(_,_)
FwdClose(st, T) == LET T2 == T \cup UNION {FanOut(st, n) : n \in T} IN IF T2 = T THEN T ELSE FwdClose(st, T2)
LiveNode(st, n) == \E m \in FwdClose(st, {n}) : st.out[m] \/ st.ty[m] = "bb_input"
DeadSet(st, inputs) == {n \in st.nodes : ~LiveNode(st, n) /\ (st.ty[n] \in Gates \cup Consts \/ (inputs /\ st.ty[n] = "input"))}
RemoveUnloadedSpec(st, inputs) == RemoveNodes(st, DeadSet(st, inputs))

(* ---- invariants on the named state (C07) ---- *)
StLegalWiring(st) ==
  \A n \in st.nodes :
     /\ st.ty[n] \in Supported
     /\ (st.ty[n] \in NoFanin => FanIn(st, n) = {})
     /\ (st.ty[n] \in OneFanin => Cardinality(FanIn(st, n)) <= 1)
     /\ (st.ty[n] = "bb_input" => FanOut(st, n) = {})
     /\ (st.ty[n] = "bb_output" => Cardinality(FanOut(st, n)) <= 1 /\ \A v \in FanOut(st, n) : st.ty[v] = "buf")
StBBConsistent(st, removedPins) ==
  \A b \in DOMAIN st.bbs :
     /\ \A p \in st.bbs[b].ins  : Pin(b, p) \notin removedPins => Pin(b, p) \in st.nodes /\ st.ty[Pin(b, p)] = "bb_input"
     /\ \A p \in st.bbs[b].outs : Pin(b, p) \notin removedPins => Pin(b, p) \in st.nodes /\ st.ty[Pin(b, p)] = "bb_output"
StTypeOK(st) ==
  /\ DOMAIN st.ty = st.nodes /\ DOMAIN st.out = st.nodes
  /\ st.edges \subseteq st.nodes \X st.nodes

(* ---- from recorded (indexed) circuits to the named state ---- *)
ToNamed(c) ==
  LET N == NameSet(c)
      im == IdxMap(c)
  IN [nodes |-> N,
      ty    |-> [x \in N |-> c.ty[im[x]]],
      out   |-> [x \in N |-> c.out[im[x]]],
      edges |-> EdgeNames(c),
      bbs   |-> [b \in BBInsts(c) |-> LET r == BBOf(c, b) IN [type |-> r.type, ins |-> Range(r.ins), outs |-> Range(r.outs)]]]
=============================================================================

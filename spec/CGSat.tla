------------------------------- MODULE CGSat -------------------------------
(***************************************************************************)
(* As-built model of circuitgraph.sat.cnf (Tseitin encoding), written so   *)
(* that TLC can run it: per-gate clause generation, 1-input demotion, and  *)
(* the parity chain in which the LAST TWO nets of the (arbitrarily ordered)*)
(* operand list are replaced by an auxiliary variable inserted at the      *)
(* FRONT.  The operand order is a parameter: it models set-iteration order.*)
(* Variables: node i has variable i; auxiliary variables are allocated     *)
(* after n, keyed by the pair of nets they combine (the IDPool).           *)
(***************************************************************************)
EXTENDS CGSem

\* pool : [keys : sequence of keys, ...] ; id of key = n + position
PoolId(n, pool, key) == IF \E p \in 1..Len(pool) : pool[p] = key
                        THEN n + (CHOOSE p \in 1..Len(pool) : pool[p] = key)
                        ELSE n + Len(pool) + 1
PoolAdd(pool, key)   == IF \E p \in 1..Len(pool) : pool[p] = key THEN pool ELSE Append(pool, key)

XorClauses(a, b, o) == << <<-o, -b, -a>>, <<-o, b, a>>, <<o, -b, a>>, <<o, b, -a>> >>

\* chain state: nets (sequence of variable ids), pool, clauses
RECURSIVE Chain(_,_,_,_)
Chain(n, nets, pool, cls) ==
  IF Len(nets) <= 2 THEN [nets |-> nets, pool |-> pool, cls |-> cls]
  ELSE LET a == nets[Len(nets) - 1]
           b == nets[Len(nets)]
           key == <<"xor", a, b>>
           v == PoolId(n, pool, key)
       IN Chain(n, <<v>> \o SubSeq(nets, 1, Len(nets) - 2), PoolAdd(pool, key), cls \o XorClauses(a, b, v))

\* clauses of node i; ord = the order in which the fan-in set is iterated
GateEnc(c, i, ord, pool) ==
  LET n == c.n
      m == Len(ord)
      t0 == c.ty[i]
      t == IF t0 \in {"and","or","xor"} /\ m = 1 THEN "buf"
           ELSE IF t0 \in {"nand","nor","xnor"} /\ m = 1 THEN "not" ELSE t0
      R(cls) == [pool |-> pool, cls |-> cls]
  IN CASE t = "and"  -> R([j \in 1..m |-> <<-i, ord[j]>>] \o << <<i>> \o [j \in 1..m |-> -ord[j]] >>)
       [] t = "nand" -> R([j \in 1..m |-> <<i, ord[j]>>] \o << <<-i>> \o [j \in 1..m |-> -ord[j]] >>)
       [] t = "or"   -> R([j \in 1..m |-> <<i, -ord[j]>>] \o << <<-i>> \o [j \in 1..m |-> ord[j]] >>)
       [] t = "nor"  -> R([j \in 1..m |-> <<-i, -ord[j]>>] \o << <<i>> \o [j \in 1..m |-> ord[j]] >>)
       [] t = "not"  -> R(IF m = 0 THEN <<>> ELSE << <<i, ord[1]>>, <<-i, -ord[1]>> >>)
       [] t \in {"buf", "bb_input"} -> R(IF m = 0 THEN <<>> ELSE << <<i, -ord[1]>>, <<-i, ord[1]>> >>)
       [] t = "xor"  -> LET ch == Chain(n, ord, pool, <<>>) IN
                        [pool |-> ch.pool, cls |-> ch.cls \o XorClauses(ch.nets[1], ch.nets[2], i)]
       [] t = "xnor" -> LET ch == Chain(n, ord, pool, <<>>)
                            key == <<"xor_inv", i>>
                            v == PoolId(n, ch.pool, key)
                        IN [pool |-> PoolAdd(ch.pool, key),
                            cls |-> ch.cls \o XorClauses(ch.nets[1], ch.nets[2], v) \o << <<i, v>>, <<-i, -v>> >>]
       [] t = "0" -> R(<< <<-i>> >>)
       [] t = "1" -> R(<< <<i>> >>)
       [] t \in {"input", "bb_output"} -> R(<< <<i, -i>> >>)

\* ords : for every node, a permutation (sequence) of its fan-in set
RECURSIVE EncodeFrom(_,_,_,_,_)
EncodeFrom(c, ords, i, pool, cls) ==
  IF i > c.n THEN [nv |-> c.n + Len(pool), clauses |-> cls]
  ELSE LET g == GateEnc(c, i, ords[i], pool) IN EncodeFrom(c, ords, i + 1, g.pool, cls \o g.cls)
Encode(c, ords) == EncodeFrom(c, ords, 1, <<>>, <<>>)

\* the intended property of the encoder: models restricted to node variables = consistent valuations
EncodeExact(c, ords) ==
  LET enc == Encode(c, ords) IN
  enc.nv <= MaxBits /\ Project(Models(enc.nv, enc.clauses), [i \in 1..c.n |-> i]) = Consistent(c)
=============================================================================

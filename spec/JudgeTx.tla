------------------------------ MODULE JudgeTx ------------------------------
(***************************************************************************)
(* Property relations for the function-preserving transforms, evaluated on *)
(* recorded calls of the real code.  Each Judge_* returns the set of names *)
(* of the clauses of the property that FAIL for the event (empty = holds). *)
(* Clauses that start with "MACHINERY:" mean the event itself is unusable  *)
(* (a wrong hint) - they are never reported as violations of the property. *)
(***************************************************************************)
EXTENDS CGSem

Machinery(c) == (IF WellFormedRec(c) THEN {} ELSE {"MACHINERY:malformed_record"})
                \cup (IF c.acyc /\ ~IsTopo(c) THEN {"MACHINERY:not_topological"} ELSE {})

(* Every node of c is a node of r with the same Kleene function of the free signals, the free      *)
(* signals of r being those of c (same names).  vc, vr : evaluations; S : node indices of c.       *)
FnDiff(c, r, vc, vr, S) ==
  {"function:" \o c.names[i] : i \in {j \in S : HasName(r, c.names[j]) /\ vc[j] # vr[Idx(r, c.names[j])]}}
Missing(c, r, S) == {"node_missing:" \o c.names[i] : i \in {j \in S : ~HasName(r, c.names[j])}}

\* c and r evaluated over the free signals of c; r must have exactly the same free names
SameFreeEval(c, r) ==
  LET U    == StdU(c)
      cols == StdColByName(c)
  IN [ok |-> FreeNames(r) = FreeNames(c),
      vc |-> Eval(c, U, StdFv(c)),
      vr |-> IF FreeNames(r) = FreeNames(c) THEN Eval(r, U, FvByName(r, cols)) ELSE <<>>]

MaxGateFanin(c) == MaxOr0({Len(c.fi[i]) : i \in OfType(c, Gates)})
MaxFanout(c)    == MaxOr0({Cardinality(FoSet(c, i)) : i \in 1..c.n})

IOClauses(c, r) ==
  (IF InputNames(c) = InputNames(r) THEN {} ELSE {"inputs_changed"})
  \cup (IF OutputNames(c) = OutputNames(r) THEN {} ELSE {"outputs_changed"})

PreservesAll(c, r) ==
  IF ~(c.acyc /\ r.acyc) THEN {"result_cyclic"}
  ELSE LET ev == SameFreeEval(c, r) IN
       IF ~ev.ok THEN {"free_signals_changed"}
       ELSE FnDiff(c, r, ev.vc, ev.vr, 1..c.n) \cup Missing(c, r, 1..c.n)

Raised(e) == IF e.exc = "" THEN {} ELSE {"raised:" \o e.exc}

(* C05  limit_fanin(c, k) *)
Judge_limit_fanin(e) ==
  IF e.exc # "" THEN Raised(e) ELSE
  Machinery(e.c) \cup Machinery(e.r) \cup IOClauses(e.c, e.r)
  \cup (IF MaxGateFanin(e.r) <= e.k THEN {} ELSE {"fanin_bound"})
  \cup PreservesAll(e.c, e.r)

(* C05  limit_fanout(c, k) *)
Judge_limit_fanout(e) ==
  IF e.exc # "" THEN Raised(e) ELSE
  Machinery(e.c) \cup Machinery(e.r) \cup IOClauses(e.c, e.r)
  \cup (IF MaxFanout(e.r) <= e.k THEN {} ELSE {"fanout_bound"})
  \cup PreservesAll(e.c, e.r)
=============================================================================

------------------------------ MODULE JudgeTx ------------------------------
(***************************************************************************)
(* Property relations for the function-preserving transforms, evaluated on *)
(* recorded calls of the real code.  Each Judge_* returns the set of names *)
(* of the clauses of the property that FAIL for the event (empty = holds). *)
(* Clauses that start with "MACHINERY:" mean the event itself is unusable  *)
(* (a wrong hint) - they are never reported as violations of the property. *)
(***************************************************************************)
EXTENDS CGSem, CGLint, CGTxMisc

RECURSIVE TFISetTx(_,_)
TFISetTx(c, S) == LET P == S \cup UNION {FiSet(c, i) : i \in S} IN IF P = S THEN S ELSE TFISetTx(c, P)
\* "not evaluable by truth tables": the harness's fault if the INPUT is cyclic / too wide (never generated), else the
\* produced circuit is cyclic or has free signals it must not have - a failed clause of the property
NotEval(inputsBad) == IF inputsBad THEN {"MACHINERY:input_not_evaluable"} ELSE {"result_cyclic_or_unexpected_free_signals"}
Machinery(c) == (IF WellFormedRec(c) THEN {} ELSE {"MACHINERY:malformed_record"})
                \cup (IF c.acyc /\ ~IsTopo(c) THEN {"MACHINERY:not_topological"} ELSE {})

(* Every node of c is a node of r with the same Kleene function of the free signals, the free      *)
(* signals of r being those of c (same names).  vc, vr : evaluations; S : node indices of c.       *)
FnDiff(c, r, vc, vr, S) ==
  {"function:" \o c.names[i] : i \in {j \in S : HasName(r, c.names[j]) /\ vc[j] # vr[Idx(r, c.names[j])]}}
Missing(c, r, S) == {"node_missing:" \o c.names[i] : i \in {j \in S : ~HasName(r, c.names[j])}}

\* c and r evaluated over the free signals of c; r must have exactly the same free names
SameFreeEval(c, r) ==
  LET U    == StdU(c)
      cols == StdColByName(c)
  IN [ok |-> FreeNames(r) = FreeNames(c),
      vc |-> Eval(c, U, StdFv(c)),
      vr |-> IF FreeNames(r) = FreeNames(c) THEN Eval(r, U, FvByName(r, cols)) ELSE <<>>]

MaxGateFanin(c) == MaxOr0({Len(c.fi[i]) : i \in OfType(c, Gates)})
MaxFanout(c)    == MaxOr0({Cardinality(FoSet(c, i)) : i \in 1..c.n})

IOClauses(c, r) ==
  (IF InputNames(c) = InputNames(r) THEN {} ELSE {"inputs_changed"})
  \cup (IF OutputNames(c) = OutputNames(r) THEN {} ELSE {"outputs_changed"})

PreservesAll(c, r) ==
  IF ~c.acyc THEN {}                  \* a cyclic argument has no function of the inputs to preserve: structural clauses only
  ELSE IF ~r.acyc THEN {"result_cyclic"}
  ELSE LET ev == SameFreeEval(c, r) IN
       IF ~ev.ok THEN {"free_signals_changed"}
       ELSE FnDiff(c, r, ev.vc, ev.vr, 1..c.n) \cup Missing(c, r, 1..c.n)

Raised(e) == IF e.exc = "" THEN {} ELSE {"raised:" \o e.exc}

(* C05  limit_fanin(c, k) *)
Judge_limit_fanin(e) ==
  IF e.exc # "" THEN Raised(e) ELSE
  Machinery(e.c) \cup Machinery(e.r) \cup IOClauses(e.c, e.r)
  \cup (IF MaxGateFanin(e.r) <= e.k THEN {} ELSE {"fanin_bound"})
  \cup PreservesAll(e.c, e.r)

(* C05  limit_fanout(c, k) *)
Judge_limit_fanout(e) ==
  IF e.exc # "" THEN Raised(e) ELSE
  Machinery(e.c) \cup Machinery(e.r) \cup IOClauses(e.c, e.r)
  \* as built: the result is one of the circuits the loop can produce under some choice of the loads it moves
  \cup (IF e.c.n <= 9 /\ WellFormedRec(e.c) /\ WellFormedRec(e.r) /\ e.k >= 2 /\ MaxFanout(e.c) <= 4
           /\ Cardinality({i \in 1..e.c.n : Cardinality(FoSet(e.c, i)) > e.k}) <= 2
           /\ ToNamed(e.r) \notin LimitFanoutResults(ToNamed(e.c), e.k)
        THEN {"DRIFT:limit_fanout_result_not_among_the_as_built_model_results"} ELSE {})
  \cup (IF MaxFanout(e.r) <= e.k THEN {} ELSE {"fanout_bound"})
  \cup PreservesAll(e.c, e.r)

(* Evaluate c and r over the free signals of r (those of c must be among them, by name). *)
SubFreeEval(c, r) ==
  LET U    == StdU(r)
      cols == StdColByName(r)
      ok   == FreeNames(c) \subseteq FreeNames(r)
  IN [ok |-> ok, vr |-> Eval(r, U, StdFv(r)), vc |-> IF ok THEN Eval(c, U, FvByName(c, cols)) ELSE <<>>]

(* C05  insert_registers(c, num_stages): e.rt = e.r with every flop made transparent (q pin := buf of d pin),
   a hint supplied by the harness and re-checked here. *)
TransparentOf(rt, r, dport, qport) ==
  /\ NameSet(rt) = NameSet(r)
  /\ \A i \in 1..r.n : LET j == Idx(rt, r.names[i]) IN
        /\ rt.out[j] = r.out[i]
        /\ rt.ty[j] = (IF r.ty[i] = "bb_output" THEN "buf" ELSE r.ty[i])
  /\ EdgeNames(rt) = EdgeNames(r) \cup {<<Pin(r.bbs[b].inst, dport), Pin(r.bbs[b].inst, qport)>> : b \in 1..Len(r.bbs)}
Judge_insert_registers(e) ==
  IF e.exc # "" THEN Raised(e) ELSE
  LET c == e.c  r == e.r  rt == e.rt IN
  Machinery(c) \cup Machinery(rt)
  \cup (IF c.n <= 10 /\ WellFormedRec(c) /\ WellFormedRec(r) /\ c.acyc
           /\ LET qs == IF "qs" \in DOMAIN e THEN e.qs ELSE "_cg_insert_reg_q_"
                  m == IF e.latch THEN InsertRegistersModelQ(ToNamed(c), e.k, [type |-> "lat", ins |-> {"d"}, outs |-> {"q"}], "d", "q", <<>>, qs)
                       ELSE InsertRegistersModelQ(ToNamed(c), e.k, [type |-> "ff", ins |-> {"clk", "d"}, outs |-> {"q"}], "d", "q", << <<"clk", "clk">> >>, qs)
              IN ~m.ok \/ ToNamed(r) # m.st
        THEN {"DRIFT:insert_registers_differs_from_as_built_model"} ELSE {})
  \cup (IF rt.acyc /\ TransparentOf(rt, r, "d", "q") THEN {} ELSE {"MACHINERY:transparent_hint_wrong"})
  \cup (IF OutputNames(c) = OutputNames(r) THEN {} ELSE {"outputs_changed"})
  \cup (IF InputNames(c) \subseteq InputNames(r) THEN {} ELSE {"inputs_lost"})
  \cup {"type_changed:" \o c.names[i] : i \in {j \in 1..c.n : HasName(r, c.names[j]) /\ r.ty[Idx(r, c.names[j])] # c.ty[j]}}
  \cup {"unexpected_new_node:" \o r.names[i] : i \in {j \in 1..r.n : ~HasName(c, r.names[j])
                                                        /\ r.ty[j] \notin {"bb_input", "bb_output", "buf", "input"}}}
  \cup {"new_input_does_not_feed_flop_pins:" \o r.names[i] : i \in {j \in Inputs(r) : ~HasName(c, r.names[j])
                                    /\ (FoSet(r, j) = {} \/ \E k \in FoSet(r, j) : r.ty[k] # "bb_input")}}
  \cup (IF LintClean(r) THEN {} ELSE {"result_not_lint_clean"})
  \cup (IF ~(c.acyc /\ rt.acyc /\ TransparentOf(rt, r, "d", "q")) THEN {}
        ELSE LET ev == SubFreeEval(c, rt) IN
             IF ~ev.ok THEN {"free_signals_lost"}
             ELSE FnDiff(c, rt, ev.vc, ev.vr, 1..c.n) \cup Missing(c, rt, 1..c.n))

(* C05  acyclic_unroll(c) for an already acyclic c: equivalent to c *)
Judge_acyclic_unroll_acyclic(e) ==
  IF e.exc # "" THEN Raised(e) ELSE
  Machinery(e.c) \cup Machinery(e.r) \cup IOClauses(e.c, e.r)
  \cup (IF e.c.n <= 10 /\ WellFormedRec(e.c) /\ WellFormedRec(e.r) /\ e.c.acyc /\ Len(e.c.bbs) = 0
           /\ ToNamed(e.r) # AcyclicUnrollModel(ToNamed(e.c), {})
        THEN {"DRIFT:acyclic_unroll_differs_from_as_built_model"} ELSE {})
  \cup (IF e.r.acyc THEN {} ELSE {"result_cyclic"})
  \cup (IF LintClean(e.r) THEN {} ELSE {"result_not_lint_clean"})
  \cup (IF ~(e.c.acyc /\ e.r.acyc) THEN {}
        ELSE LET ev == SameFreeEval(e.c, e.r) IN
             IF ~ev.ok THEN {"free_signals_changed"}
             ELSE FnDiff(e.c, e.r, ev.vc, ev.vr, Outputs(e.c)) \cup Missing(e.c, e.r, Outputs(e.c)))

(* C04  miter(c0, c1, startpoints, endpoints): e.c0, e.c1, e.s_given, e.S, e.e_given, e.E (sequences of names;
   ignored when not given: the defaults are the startpoints / endpoints present in both), e.m *)
RECURSIVE KOrXors(_,_,_,_,_,_,_)
KOrXors(U, c0, c1, v0, v1, Es, acc) ==
  IF Es = {} THEN acc
  ELSE LET nm == CHOOSE x \in Es : TRUE
           d == SymDiff(v0[Idx(c0, nm)].one, v1[Idx(c1, nm)].one)
       IN KOrXors(U, c0, c1, v0, v1, Es \ {nm}, acc \cup d)
Judge_miter(e) ==
  IF e.exc # "" THEN Raised(e) ELSE
  LET c0 == e.c0  c1 == e.c1  m == e.m
      S == IF e.s_given THEN Range(e.S) ELSE InputNames(c0) \cap InputNames(c1)
      E == IF e.e_given THEN Range(e.E) ELSE OutputNames(c0) \cap OutputNames(c1)
      P0(nm) == IF nm \in S THEN nm ELSE "c0_" \o nm
      P1(nm) == IF nm \in S THEN nm ELSE "c1_" \o nm
  IN Machinery(c0) \cup Machinery(c1) \cup Machinery(m)
     \cup (IF c0.n + c1.n <= 12 /\ WellFormedRec(m) /\ WellFormedRec(c0) /\ WellFormedRec(c1)
              /\ ToNamed(m) # MiterModel(ToNamed(c0), ToNamed(c1), S, E)
           THEN {"DRIFT:miter_differs_from_as_built_model"} ELSE {})
     \cup (IF InputNames(m) = S THEN {} ELSE {"inputs_are_not_the_tied_startpoints"})
     \cup (IF OutputNames(m) = {"sat"} THEN {} ELSE {"outputs_are_not_sat"})
     \cup (IF ~(m.acyc /\ c0.acyc /\ c1.acyc) \/ ~HasName(m, "sat") \/ NFree(m) > MaxBits
           THEN NotEval(~(c0.acyc /\ c1.acyc) \/ NFree(c0) + NFree(c1) > MaxBits)
           ELSE IF \E i \in FreeNodes(c0) : ~HasName(m, P0(c0.names[i])) THEN {"free_signal_of_c0_missing"}
           ELSE IF \E i \in FreeNodes(c1) : ~HasName(m, P1(c1.names[i])) THEN {"free_signal_of_c1_missing"}
           ELSE LET U == StdU(m)
                    vm == EvalStd(m)
                    v0 == Eval(c0, U, [i \in FreeNodes(c0) |-> vm[Idx(m, P0(c0.names[i]))]])
                    v1 == Eval(c1, U, [i \in FreeNodes(c1) |-> vm[Idx(m, P1(c1.names[i]))]])
                    want == KOrXors(U, c0, c1, v0, v1, E, {})
                    got == vm[Idx(m, "sat")]
                IN (IF \E i \in FreeNodes(m) : m.names[i] \notin S \cup {P0(c0.names[j]) : j \in FreeNodes(c0)} \cup {P1(c1.names[j]) : j \in FreeNodes(c1)}
                    THEN {"extra_free_signal_in_miter"} ELSE {})
                   \cup (IF got.x = {} /\ got.one = want THEN {} ELSE {"sat_is_not_the_difference"}))

(* C10  ternary(c): e.c, e.t, e.map (sequence of <<node of c, companion node of t>> as names) *)
Judge_ternary(e) ==
  IF e.exc # "" THEN Raised(e) ELSE
  LET c == e.c  t == e.t
      comp == [i \in 1..Len(e.map) |-> e.map[i]]
      CompOf(nm) == (CHOOSE j \in 1..Len(e.map) : e.map[j][1] = nm)
  IN Machinery(c) \cup Machinery(t)
     \cup (IF {e.map[j][1] : j \in 1..Len(e.map)} = NameSet(c) THEN {} ELSE {"mapping_not_total"})
     \cup {"original_node_changed:" \o c.names[i] : i \in {j \in 1..c.n :
              ~HasName(t, c.names[j]) \/ (LET k == Idx(t, c.names[j]) IN
                  t.ty[k] # c.ty[j] \/ t.out[k] # c.out[j] \/ FiNames(t, k) # FiNames(c, j))}}
     \cup (IF ~(c.acyc /\ t.acyc) \/ NFree(t) > MaxBits \/ {e.map[j][1] : j \in 1..Len(e.map)} # NameSet(c)
              \/ (\E j \in 1..Len(e.map) : ~HasName(t, e.map[j][2])) \/ (\E i \in 1..c.n : ~HasName(t, c.names[i]))
           THEN NotEval(~c.acyc \/ 2 * NFree(c) > MaxBits)
           ELSE LET U == StdU(t)
                    vt == EvalStd(t)
                    XOf(nm) == vt[Idx(t, e.map[CompOf(nm)][2])].one
                    \* Kleene evaluation of c: input i is X where its companion is 1, else its own binary value
                    fv == [i \in FreeNodes(c) |-> [one |-> vt[Idx(t, c.names[i])].one \ XOf(c.names[i]), x |-> XOf(c.names[i])]]
                    vk == Eval(c, U, fv)
                IN {"companion_is_not_kleene_x:" \o c.names[i] : i \in {j \in 1..c.n : XOf(c.names[j]) # vk[j].x}}
                   \cup {"value_differs_from_kleene:" \o c.names[i] : i \in {j \in 1..c.n :
                            vt[Idx(t, c.names[j])].one \ vk[j].x # vk[j].one}})

(* C09  unroll(c, n, state_io): e.c, e.n, e.sio (seq of <<state output k, state input v>>), e.uc,
   e.iomap (seq of <<io name of c, seq of node names of uc, one per step>>) *)
MapOf(e, nm) == e.iomap[CHOOSE j \in 1..Len(e.iomap) : e.iomap[j][1] = nm][2]
HasMap(e, nm) == \E j \in 1..Len(e.iomap) : e.iomap[j][1] = nm
StateIn(e)  == {e.sio[j][2] : j \in 1..Len(e.sio)}
KOfV(e, v)  == e.sio[CHOOSE j \in 1..Len(e.sio) : e.sio[j][2] = v][1]
\* iterated execution: values of all nodes of c at steps 0..n-1, inputs bound to the unrolled circuit's nodes via iomap
RECURSIVE RunSteps(_,_,_,_,_,_)
RunSteps(e, c, U, vuc, t, acc) ==
  IF t >= e.n THEN acc
  ELSE LET fv == [i \in FreeNodes(c) |->
                    LET nm == c.names[i] IN
                    IF nm \in StateIn(e) /\ t > 0 THEN acc[t][Idx(c, KOfV(e, nm))]
                    ELSE vuc[Idx(e.uc, MapOf(e, nm)[t + 1])]]
       IN RunSteps(e, c, U, vuc, t + 1, Append(acc, Eval(c, U, fv)))
Judge_unroll(e) ==
  IF e.exc # "" THEN Raised(e) ELSE
  LET c == e.c  uc == e.uc
      ioNames == InputNames(c) \cup OutputNames(c)
      wantInputs == {MapOf(e, nm)[1] : nm \in StateIn(e)}
                    \cup UNION {{MapOf(e, nm)[t] : t \in 1..e.n} : nm \in InputNames(c) \ StateIn(e)}
      mapOK == /\ \A nm \in ioNames : HasMap(e, nm) /\ Len(MapOf(e, nm)) = e.n
                                         /\ \A t \in 1..e.n : HasName(uc, MapOf(e, nm)[t])
  IN Machinery(c) \cup Machinery(uc)
     \cup (IF c.n * e.n <= 14 /\ WellFormedRec(c) /\ WellFormedRec(uc)
              /\ ToNamed(uc) # UnrollModel(ToNamed(c), e.n, {<<e.sio[j][1], e.sio[j][2]>> : j \in 1..Len(e.sio)})
           THEN {"DRIFT:unroll_differs_from_as_built_model"} ELSE {})
     \cup (IF mapOK THEN {} ELSE {"io_map_incomplete"})
     \cup (IF ~mapOK THEN {} ELSE
           (IF InputNames(uc) = wantInputs THEN {} ELSE {"inputs_of_unrolled_circuit"})
           \cup (IF ~(c.acyc /\ uc.acyc) \/ NFree(uc) > MaxBits \/ FreeNames(c) # InputNames(c)
                 THEN NotEval(~c.acyc \/ FreeNames(c) # InputNames(c) \/ NFree(c) * e.n > MaxBits)
                 ELSE LET U == StdU(uc)
                          vuc == EvalStd(uc)
                          run == RunSteps(e, c, U, vuc, 0, <<>>)
                      IN UNION {{"value_at_step:" \o c.names[i] \o "@" \o ToString(t - 1) :
                                       t \in {s \in 1..e.n : vuc[Idx(uc, MapOf(e, c.names[i])[s])] # run[s][i]}} : i \in Outputs(c)}))

(* C09  sequential_unroll(c, n, d, q, ignore_pins, add_flop_outputs, initial_values, remove_unloaded):
   e.c (with flop blackboxes), e.n, e.d, e.q, e.add_flop_outputs, e.init (seq of <<instance, "free"|"0"|"1"|"x">>),
   e.uc, e.iomap (keys: primary io names and <inst>_<d>, <inst>_<q>) *)
InitOf(e, inst) == e.init[CHOOSE j \in 1..Len(e.init) : e.init[j][1] = inst][2]
RECURSIVE SeqSteps(_,_,_,_,_,_)
SeqSteps(e, c, U, vuc, t, acc) ==
  IF t >= e.n THEN acc
  ELSE LET fv == [i \in FreeNodes(c) |->
                    LET nm == c.names[i] IN
                    IF c.ty[i] = "bb_output" THEN
                       LET inst == InstOf(nm) IN
                       IF t > 0 THEN acc[t][Idx(c, Pin(inst, e.d))]
                       ELSE (CASE InitOf(e, inst) = "0" -> K0 [] InitOf(e, inst) = "1" -> K1(U) [] InitOf(e, inst) = "x" -> KX(U)
                               [] OTHER -> vuc[Idx(e.uc, MapOf(e, Pfx(inst, e.q))[1])])
                    ELSE IF HasMap(e, nm) THEN vuc[Idx(e.uc, MapOf(e, nm)[t + 1])] ELSE K0]
       IN SeqSteps(e, c, U, vuc, t + 1, Append(acc, Eval(c, U, fv)))
Judge_sequential_unroll(e) ==
  IF e.exc # "" THEN Raised(e) ELSE
  LET c == e.c  uc == e.uc
      insts == BBInsts(c)
      primOut == {i \in Outputs(c) : c.ty[i] \notin BBPins}
      primIn  == {i \in Inputs(c) : HasMap(e, c.names[i])}
      mapOK == /\ \A i \in primOut : HasMap(e, c.names[i])
               /\ \A b \in insts : HasMap(e, Pfx(b, e.d)) /\ HasMap(e, Pfx(b, e.q))
               /\ \A j \in 1..Len(e.iomap) : Len(e.iomap[j][2]) = e.n /\ \A t \in 1..e.n : HasName(uc, e.iomap[j][2][t])
      wantOut == UNION {{MapOf(e, c.names[i])[t] : t \in 1..e.n} : i \in primOut}
                 \cup (IF e.add_flop_outputs THEN UNION {{MapOf(e, Pfx(b, e.d))[t] : t \in 1..e.n} : b \in insts} ELSE {})
      wantIn  == UNION {{MapOf(e, c.names[i])[t] : t \in 1..e.n} : i \in primIn}
                 \cup {MapOf(e, Pfx(b, e.q))[1] : b \in {x \in insts : InitOf(e, x) = "free"}}
  IN Machinery(c) \cup Machinery(uc)
     \cup (IF c.n * e.n <= 24 /\ WellFormedRec(c) /\ WellFormedRec(uc)
              /\ ToNamed(uc) # SeqUnrollModel(ToNamed(c), e.n, e.d, e.q, Range(e.ignore), e.add_flop_outputs,
                                               [b \in insts |-> InitOf(e, b)], e.remove_unloaded)
           THEN {"DRIFT:sequential_unroll_differs_from_as_built_model"} ELSE {})
     \cup {"primary_output_dropped:" \o c.names[i] : i \in {j \in primOut : ~HasMap(e, c.names[j])}}
     \* remove_unloaded (documented: "unloaded inputs will be removed after unrolling"): no free input that nothing reads
     \cup (IF e.remove_unloaded /\ WellFormedRec(uc)
           THEN {"unloaded_input_kept_although_remove_unloaded:" \o uc.names[i] : i \in {j \in Inputs(uc) : FoSet(uc, j) = {} /\ ~uc.out[j]}}
                \* a primary input that only fed dropped flop pins (or nothing at all) has no copies and no map entry
                \cup {"unloaded_input_kept_although_remove_unloaded:" \o c.names[i] :
                        i \in {j \in Inputs(c) : ~c.out[j]
                                  /\ (\A k \in FoSet(c, j) : c.ty[k] = "bb_input" /\ PinPartApi(c.names[k]) # e.d)
                                  /\ (HasMap(e, c.names[j]) \/ \E t \in 0..(e.n - 1) : HasName(uc, UName(c.names[j], t)))}}
           ELSE {})
     \cup (IF ~mapOK THEN {"io_map_incomplete"} ELSE
           (IF OutputNames(uc) = wantOut THEN {} ELSE {"outputs_of_unrolled_circuit"})
           \cup (IF InputNames(uc) = wantIn THEN {} ELSE {"inputs_of_unrolled_circuit"})
           \cup {"loaded_input_dropped:" \o c.names[i] : i \in {j \in Inputs(c) : ~HasMap(e, c.names[j]) /\ FoSet(c, j) # {}
                                                                      /\ \E k \in FoSet(c, j) : c.ty[k] # "bb_input"}}
           \cup (IF ~(c.acyc /\ uc.acyc) \/ NFree(uc) > MaxBits THEN NotEval(~c.acyc \/ NFree(c) * e.n > MaxBits)
                 ELSE LET U == StdU(uc)
                          vuc == EvalStd(uc)
                          run == SeqSteps(e, c, U, vuc, 0, <<>>)
                      IN UNION {{"value_at_step:" \o c.names[i] \o "@" \o ToString(t - 1) :
                                   t \in {s \in 1..e.n : vuc[Idx(uc, MapOf(e, c.names[i])[s])] # run[s][i]}} : i \in primOut}
                         \cup (IF ~e.add_flop_outputs THEN {} ELSE
                               UNION {{"flop_data_at_step:" \o b \o "@" \o ToString(t - 1) :
                                   t \in {s \in 1..e.n : vuc[Idx(uc, MapOf(e, Pfx(b, e.d))[s])] # run[s][Idx(c, Pin(b, e.d))]}} : b \in insts})))

(* ---- C11: sensitivity analyses ---- *)
\* truth tables of all nodes of c when node n is inverted (n's own computed value complemented, downstream re-evaluated)
EvalFlipNode(c, U, fv, n) == LET v == Eval(c, U, fv) IN Eval(c, U, (n :> KNot(U, v[n])) @@ fv)
\* truth tables when the free signal s (a node index) is complemented
EvalFlipInput(c, U, fv, s) == Eval(c, U, (s :> KNot(U, fv[s])) @@ fv)
RECURSIVE UnionDiff(_,_,_,_)
UnionDiff(v, w, S, acc) == IF S = {} THEN acc ELSE LET i == CHOOSE x \in S : TRUE IN
                           UnionDiff(v, w, S \ {i}, acc \cup SymDiff(v[i].one, w[i].one))
\* c evaluated over the universe of another circuit r: free signals of c take the value of the same-named node of r if it
\* exists (else 0: such inputs are outside every cone that matters)
FvFrom(c, r, vr) == [i \in FreeNodes(c) |-> IF HasName(r, c.names[i]) THEN vr[Idx(r, c.names[i])] ELSE K0]

(* sensitization_transform(c, n, endpoints): e.c, e.node (name), e.e_given, e.E (names), e.m *)
Judge_sensitization_transform(e) ==
  IF e.exc # "" THEN Raised(e) ELSE
  LET c == e.c  m == e.m
      n == Idx(c, e.node)
      E == IF e.e_given THEN {Idx(c, x) : x \in Range(e.E)} ELSE Outputs(c)
  IN Machinery(c) \cup Machinery(m)
     \cup (IF c.n <= 8 /\ WellFormedRec(c) /\ WellFormedRec(m)
              /\ ToNamed(m) # SensModel(ToNamed(c), e.node, IF e.e_given THEN Range(e.E) ELSE {})
           THEN {"DRIFT:sensitization_transform_differs_from_as_built_model"} ELSE {})
     \cup (IF OutputNames(m) = {"sat"} THEN {} ELSE {"outputs_are_not_sat"})
     \cup (IF InputNames(m) \subseteq InputNames(c) THEN {} ELSE {"inputs_not_from_circuit"})
     \cup (IF ~(c.acyc /\ m.acyc) \/ NFree(m) > MaxBits \/ ~HasName(m, "sat") \/ FreeNames(m) # InputNames(m)
           THEN NotEval(~c.acyc \/ NFree(c) > MaxBits)
           ELSE LET U == StdU(m)  vm == EvalStd(m)
                    fv == FvFrom(c, m, vm)
                    v == Eval(c, U, fv)
                    w == EvalFlipNode(c, U, fv, n)
                IN IF vm[Idx(m, "sat")] = KCol(UnionDiff(v, w, E, {})) THEN {} ELSE {"sat_is_not_sensitization"})

(* props.sensitize(c, n, assumptions on inputs): e.c, e.node, e.assum (seq of <<input name, BOOLEAN>>),
   e.found, e.val (seq of <<input name, BOOLEAN>>) *)
Judge_sensitize(e) ==
  IF e.exc # "" THEN Raised(e) ELSE
  LET c == e.c
      n == Idx(c, e.node)
      U == StdU(c)  fv == StdFv(c)
      v == Eval(c, U, fv)
      w == EvalFlipNode(c, U, fv, n)
      sens == UnionDiff(v, w, Outputs(c), {})
      HasV(nm, b) == IF b THEN v[Idx(c, nm)].one ELSE U \ v[Idx(c, nm)].one
      RECURSIVE Meet(_,_,_)
      Meet(sq, j, acc) == IF j > Len(sq) THEN acc ELSE Meet(sq, j + 1, acc \cap HasV(sq[j][1], sq[j][2]))
      ok == Meet(e.assum, 1, sens)
  IN Machinery(c)
     \cup (IF ~c.acyc \/ NFree(c) > MaxBits THEN {"MACHINERY:not_evaluable"}
           ELSE IF ~e.found THEN (IF ok = {} THEN {} ELSE {"none_but_sensitizable"})
           ELSE (IF {e.val[j][1] : j \in 1..Len(e.val)} \subseteq InputNames(c) THEN {} ELSE {"valuation_names"})
                \cup (IF {e.val[j][1] : j \in 1..Len(e.val)} \subseteq InputNames(c) /\ Meet(e.val, 1, ok) = {}
                      THEN {"valuation_does_not_sensitize"} ELSE {}))

(* sensitivity_transform(c, n): e.c, e.node, e.sen; dif_out_<s> and sen_out_<o> *)
RECURSIVE BitsValue(_,_,_,_,_)
BitsValue(sen, vs, p, o, acc) ==   \* sum over o of 2^o [p in TT(sen_out_o)]
  IF ~HasName(sen, "sen_out_" \o ToString(o)) THEN acc
  ELSE BitsValue(sen, vs, p, o + 1, acc + (IF p \in vs[Idx(sen, "sen_out_" \o ToString(o))].one THEN 2^o ELSE 0))
ConeInputs(c, n) == LET anc == TFISetTx(c, {n}) IN {i \in anc : c.ty[i] \in {"input", "bb_output"}}
Judge_sensitivity_transform(e) ==
  IF e.exc # "" THEN Raised(e) ELSE
  LET c == e.c  sen == e.sen
      n == Idx(c, e.node)
      sp == ConeInputs(c, n)
  IN Machinery(c) \cup Machinery(sen)
     \cup (IF c.n <= 8 /\ Cardinality(sp) <= 3 /\ c.acyc /\ Len(c.bbs) = 0 /\ WellFormedRec(c) /\ WellFormedRec(sen)
              /\ ToNamed(sen) \notin SensitivityResults(ToNamed(c), e.node)
           THEN {"DRIFT:sensitivity_transform_not_among_the_as_built_model_results"} ELSE {})
     \cup (IF InputNames(sen) = NamesOf(c, sp) THEN {} ELSE {"inputs_are_not_the_cone_startpoints"})
     \cup (IF ~(c.acyc /\ sen.acyc) \/ NFree(sen) > MaxBits \/ FreeNames(sen) # InputNames(sen) \/ InputNames(sen) # NamesOf(c, sp)
           THEN NotEval(~c.acyc \/ NFree(c) > MaxBits)
           ELSE LET U == StdU(sen)  vs == EvalStd(sen)
                    fv == FvFrom(c, sen, vs)
                    v == Eval(c, U, fv)
                    dif == [s \in sp |-> SymDiff(v[n].one, EvalFlipInput(c, U, fv, s)[n].one)]
                IN {"dif_out_missing:" \o c.names[s] : s \in {x \in sp : ~HasName(sen, "dif_out_" \o c.names[x])}}
                   \cup {"dif_out_wrong:" \o c.names[s] : s \in {x \in sp : HasName(sen, "dif_out_" \o c.names[x])
                                                                     /\ vs[Idx(sen, "dif_out_" \o c.names[x])] # KCol(dif[x])}}
                   \cup (IF \A p \in U : BitsValue(sen, vs, p, 0, 0) = Cardinality({s \in sp : p \in dif[s]})
                         THEN {} ELSE {"sen_out_is_not_the_count"}))

(* props.sensitivity / influence / avg_sensitivity: e.c, e.node, e.sens (int), e.infl (seq of <<input name, num, den>>),
   e.avg_num, e.avg_den *)
Judge_sensitivity_props(e) ==
  IF e.exc # "" THEN Raised(e) ELSE
  LET c == e.c
      n == Idx(c, e.node)
      sp == ConeInputs(c, n)
      k == NFree(c)
      U == StdU(c)  fv == StdFv(c)
      v == Eval(c, U, fv)
      dif == [s \in sp |-> SymDiff(v[n].one, EvalFlipInput(c, U, fv, s)[n].one)]
      sensAt(p) == Cardinality({s \in sp : p \in dif[s]})
      maxSens == Max({sensAt(p) : p \in U})
      total == LET RECURSIVE Sum(_) Sum(S) == IF S = {} THEN 0 ELSE LET s == CHOOSE x \in S : TRUE IN Cardinality(dif[s]) + Sum(S \ {s}) IN Sum(sp)
  IN Machinery(c)
     \cup (IF ~c.acyc \/ k > MaxBits THEN {"MACHINERY:not_evaluable"}
           ELSE (IF e.sens = maxSens THEN {} ELSE {"sensitivity"})
                \cup (IF {e.infl[j][1] : j \in 1..Len(e.infl)} = NamesOf(c, sp) THEN {} ELSE {"influence_keys"})
                \cup {"influence:" \o e.infl[j][1] : j \in {x \in 1..Len(e.infl) : HasName(c, e.infl[x][1]) /\ Idx(c, e.infl[x][1]) \in sp
                                                             /\ e.infl[x][2] * (2^k) # e.infl[x][3] * Cardinality(dif[Idx(c, e.infl[x][1])])}}
                \cup (IF e.avg_num * (2^k) = e.avg_den * total THEN {} ELSE {"avg_sensitivity"}))

(* C18  acyclic_unroll(c) on a cyclic c (all-bits method: node i of c is bit i; <= MaxBits nodes) *)
\* the relation for a given attribution aux : (aux input name of r) -> node index of c
StableOK(c, r, aux) ==
  LET n == c.n
      U == AllTab[n]
      cons == Consistent(c)
      fv == [i \in FreeNodes(r) |->
               LET nm == r.names[i] IN
               IF nm \in DOMAIN aux THEN KCol(ColTab[n][aux[nm]])
               ELSE IF HasName(c, nm) THEN KCol(ColTab[n][Idx(c, nm)]) ELSE KX(U)]
      vr == Eval(r, U, fv)
  IN \A o \in Outputs(c) : HasName(r, c.names[o]) /\
        LET w == vr[Idx(r, c.names[o])] IN w.one \cap cons = ColTab[n][o] \cap cons /\ w.x \cap cons = {}
AuxHint(c, A) ==   \* c<k>_aux_in_<f>  |->  f
  [a \in A |-> LET p == CHOOSE q \in 1..Len(a) : q + 7 <= Len(a) /\ SubSeq(a, q, q + 7) = "_aux_in_"
               IN SubSeq(a, p + 8, Len(a))]
HintUsable(c, A) == \A a \in A : (\E q \in 1..Len(a) : q + 7 <= Len(a) /\ SubSeq(a, q, q + 7) = "_aux_in_")
Judge_acyclic_unroll_cyclic(e) ==
  IF e.exc # "" THEN Raised(e) ELSE
  LET c == e.c  r == e.r
      A == InputNames(r) \ InputNames(c)
      hintOK == HintUsable(c, A) /\ (\A a \in A : HasName(c, AuxHint(c, A)[a]))
      Fh == {AuxHint(c, A)[a] : a \in A}
  IN (IF WellFormedRec(c) /\ WellFormedRec(r) THEN {} ELSE {"MACHINERY:malformed_record"})
     \cup (IF r.acyc /\ ~IsTopo(r) THEN {"MACHINERY:not_topological"} ELSE {})
     \* as built: the feedback nodes (read from the aux_in_<f> names) are a set the heuristic can return under some
     \* tie-break, and the circuit is the one the construction program builds for that set
     \cup (IF c.n <= 10 /\ WellFormedRec(c) /\ WellFormedRec(r) /\ hintOK /\ Fh \notin FasNodeSets(ToNamed(c))
           THEN {"DRIFT:feedback_set_not_among_the_as_built_heuristic_results"} ELSE {})
     \cup (IF c.n <= 10 /\ WellFormedRec(c) /\ WellFormedRec(r) /\ hintOK /\ Cardinality(Fh) <= 3
              /\ ToNamed(r) # AcyclicUnrollModel(ToNamed(c), Fh)
           THEN {"DRIFT:acyclic_unroll_differs_from_as_built_model"} ELSE {})
     \cup (IF r.acyc THEN {} ELSE {"result_cyclic"})
     \cup (IF LintClean(r) THEN {} ELSE {"result_not_lint_clean"})
     \cup (IF OutputNames(r) = OutputNames(c) THEN {} ELSE {"outputs_changed"})
     \cup (IF InputNames(c) \subseteq InputNames(r) THEN {} ELSE {"inputs_lost"})
     \cup (IF ~r.acyc \/ c.n > MaxBits \/ OutputNames(r) # OutputNames(c) THEN {}
           ELSE IF HintUsable(c, A) /\ (\A a \in A : HasName(c, AuxHint(c, A)[a]))
                THEN (IF StableOK(c, r, [a \in A |-> Idx(c, AuxHint(c, A)[a])]) THEN {} ELSE {"stable_states_not_preserved"})
           \* the naming hint cannot be read: any attribution of the auxiliary inputs to nodes will do (small cases only)
           ELSE IF Cardinality(A) <= 2 /\ c.n <= 10 /\ (\E f \in [A -> 1..c.n] : StableOK(c, r, f)) THEN {}
           ELSE {"stable_states_not_preserved"})

(* C17  supergates(c): e.c (fan-in <= 2, so that the fan-in-limited circuit is c itself), e.L (sequence of indexed
   supergate circuits, in the returned order; for the super-circuit form a topological order supplied as a hint),
   e.form = "list" | "super", e.superc (super form only) *)
RECURSIVE AncClose(_,_)
AncClose(c, S) == LET P == S \cup UNION {FiSet(c, i) : i \in S} IN IF P = S THEN S ELSE AncClose(c, P)
SgInputs(sg)   == NamesOf(sg, Inputs(sg))
SgInternal(sg) == NameSet(sg) \ SgInputs(sg)
\* compose the supergates in list order: env maps produced node names to truth tables over c's free signals
RECURSIVE Compose(_,_,_,_,_)
Compose(c, U, L, j, env) ==
  IF j > Len(L) THEN env
  ELSE LET sg == L[j]
           ok == \A i \in Inputs(sg) : sg.names[i] \in DOMAIN env
       IN IF ~ok \/ ~sg.acyc \/ ~IsTopo(sg) THEN env
          ELSE LET vals == Eval(sg, U, [i \in FreeNodes(sg) |-> IF sg.names[i] \in DOMAIN env THEN env[sg.names[i]] ELSE KX(U)])
               IN Compose(c, U, L, j + 1, [nm \in SgInternal(sg) |-> vals[Idx(sg, nm)]] @@ env)
Judge_supergates(e) ==
  IF e.exc # "" THEN Raised(e) ELSE
  LET c == e.c  L == e.L
      cone == AncClose(c, Outputs(c))
      producedBy(nm) == {j \in 1..Len(L) : nm \in SgInternal(L[j])}
  IN Machinery(c)
     \* as built: the blocks are one of the block sets the per-cone dominator construction, the cover filter and the
     \* keyed dict can produce
     \cup (IF ~e.wide /\ c.n <= 9 /\ c.acyc /\ WellFormedRec(c) /\ (\A j \in 1..Len(L) : WellFormedRec(L[j]))
              /\ {ToNamed(L[j]) : j \in 1..Len(L)} \notin {{b.sg : b \in R} : R \in SupergateResults(ToNamed(c))}
           THEN {"DRIFT:supergates_not_among_the_as_built_model_results"} ELSE {})
     \cup UNION { LET sg == L[j]  tag == "@" \o ToString(j) IN
                  (IF WellFormedRec(sg) THEN {} ELSE {"MACHINERY:malformed_record"})
                  \cup (IF Cardinality(Outputs(sg)) = 1 THEN {} ELSE {"not_single_output" \o tag})
                  \cup (IF MaxGateFanin(sg) <= 2 THEN {} ELSE {"gate_with_more_than_two_operands" \o tag})
                  \cup (IF e.wide \/ NameSet(sg) \subseteq NameSet(c) THEN {} ELSE {"node_not_in_circuit" \o tag})
                  \* e.wide: c has gates with more than two operands, the blocks are sub-circuits of limit_fanin(c, 2), which is
                  \* not recorded: only the clauses that can be stated on c itself are judged (cover, order, composition)
                  \cup (IF e.wide \/ ~(NameSet(sg) \subseteq NameSet(c)) THEN {} ELSE
                        (IF EdgeNames(sg) = {ed \in EdgeNames(c) : ed[1] \in NameSet(sg) /\ ed[2] \in NameSet(sg)} THEN {}
                         ELSE {"wiring_not_induced" \o tag})
                        \cup {"internal_node_differs:" \o nm \o tag : nm \in {x \in SgInternal(sg) :
                                 sg.ty[Idx(sg, x)] # c.ty[Idx(c, x)] \/ FiNames(sg, Idx(sg, x)) # FiNames(c, Idx(c, x))}}
                        \cup {"inputs_share_fanin:" \o pr[1] \o "," \o pr[2] \o tag :
                                 pr \in {q \in SgInputs(sg) \X SgInputs(sg) : q[1] # q[2] /\
                                           AncClose(c, {Idx(c, q[1])}) \cap AncClose(c, {Idx(c, q[2])}) # {}}})
                  : j \in 1..Len(L) }
     \cup {"gate_not_covered:" \o c.names[i] : i \in {k \in cone : c.ty[k] \in Gates /\ producedBy(c.names[k]) = {}}}
     \* every primary output (a gate, a constant, or an input that is fed through) is a node of some block
     \cup {"output_in_no_block:" \o c.names[o] : o \in {k \in Outputs(c) : \A j \in 1..Len(L) : ~(WellFormedRec(L[j]) /\ c.names[k] \in NameSet(L[j]))}}
     \cup (IF e.form # "list" THEN {} ELSE
           \* topological order: EVERY block that has a net inside comes before every block that reads that net
           {"not_topological:" \o ToString(j) : j \in {k \in 1..Len(L) :
               \E a \in SgInputs(L[k]) : \E q \in producedBy(a) : q > k}})
     \cup (IF ~c.acyc \/ NFree(c) > MaxBits \/ (\E j \in 1..Len(L) : ~WellFormedRec(L[j])) THEN {}
           ELSE LET U == StdU(c)
                    v == EvalStd(c)
                    env0 == [nm \in FreeNames(c) |-> v[Idx(c, nm)]]
                    env == Compose(c, U, L, 1, env0)
                IN {"composition_differs_at_output:" \o c.names[o] : o \in {k \in Outputs(c) :
                        c.ty[k] \in Gates /\ (c.names[k] \notin DOMAIN env \/ env[c.names[k]] # v[k])}})
     \cup (IF e.form # "super" THEN {} ELSE
           LET sc == e.superc IN
           (IF WellFormedRec(sc) THEN {} ELSE {"MACHINERY:malformed_record"})
           \cup (IF InputNames(sc) = InputNames(c) THEN {} ELSE {"supercircuit_inputs"})
           \cup (IF OutputNames(sc) = OutputNames(c) THEN {} ELSE {"supercircuit_outputs"})
           \cup (IF Len(sc.bbs) = Len(L) THEN {} ELSE {"supercircuit_instance_count"})
           \cup UNION { LET sg == L[j]
                            o == CHOOSE x \in OutputNames(sg) : TRUE
                            inst == "sg_" \o o
                        IN IF ~(\E b \in 1..Len(sc.bbs) : sc.bbs[b].inst = inst) THEN {"supercircuit_instance_missing:" \o inst}
                           ELSE LET bb == BBOf(sc, inst) IN
                                (IF Range(bb.ins) = SgInputs(sg) /\ Range(bb.outs) = {o} THEN {} ELSE {"supercircuit_pins:" \o inst})
                                \cup {"supercircuit_pin_net:" \o Pin(inst, p) : p \in {x \in Range(bb.ins) :
                                        ~HasName(sc, Pin(inst, x)) \/ FiNames(sc, Idx(sc, Pin(inst, x))) # {x}}}
                                \cup (IF HasName(sc, Pin(inst, o)) /\ HasName(sc, o) /\ Pin(inst, o) \in FiNames(sc, Idx(sc, o))
                                      THEN {} ELSE {"supercircuit_output_net:" \o inst})
                        : j \in {k \in 1..Len(L) : Cardinality(Outputs(L[k])) = 1} })
=============================================================================

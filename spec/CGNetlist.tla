----------------------------- MODULE CGNetlist -----------------------------
(***************************************************************************)
(* Denotation of structural netlists (the Verilog subset and the bench     *)
(* dialect share one abstract syntax) and the property relations of the    *)
(* readers and writers (C02, C03, C14, C15).                               *)
(*                                                                         *)
(* program = [name, ports, inputs, outputs, items, bbtypes]                *)
(*   items (listed in DEPENDENCY order - a hint that Den re-checks;        *)
(*   the order in the text is arbitrary and chosen by the harness):        *)
(*     [k |-> "gate",   t, out, ins : seq of expressions]                  *)
(*     [k |-> "assign", lhs, rhs : expression]                             *)
(*     [k |-> "bb", type, inst, conns : seq of <<pin, expression | <<>> >>]*)
(*   expression = postfix token sequence: "$net" "0" "1" "x" "~" "&" "|"   *)
(*                "^" "~^" "?:"                                            *)
(* Den gives every driven net its Kleene truth table over the free signals *)
(* (inputs and nets driven by blackbox outputs).                           *)
(***************************************************************************)
EXTENDS CGSem, CGLint

IsId(tok) == Len(tok) > 1 /\ SubSeq(tok, 1, 1) = "$"
IdOf(tok) == SubSeq(tok, 2, Len(tok))
ExprNets(ex) == {IdOf(ex[q]) : q \in {x \in 1..Len(ex) : IsId(ex[x])}}

RECURSIVE EvalPF(_,_,_,_,_)
EvalPF(U, ex, i, stack, env) ==
  IF i > Len(ex) THEN stack[Len(stack)]
  ELSE LET tok == ex[i]  n == Len(stack) IN
    IF IsId(tok) THEN EvalPF(U, ex, i+1, Append(stack, env[IdOf(tok)]), env)
    ELSE IF tok = "0" THEN EvalPF(U, ex, i+1, Append(stack, K0), env)
    ELSE IF tok = "1" THEN EvalPF(U, ex, i+1, Append(stack, K1(U)), env)
    ELSE IF tok = "x" THEN EvalPF(U, ex, i+1, Append(stack, KX(U)), env)
    ELSE IF tok = "~" THEN EvalPF(U, ex, i+1, Append(SubSeq(stack, 1, n-1), KNot(U, stack[n])), env)
    ELSE IF tok = "?:" THEN EvalPF(U, ex, i+1, Append(SubSeq(stack, 1, n-3), KMux(U, stack[n-2], stack[n-1], stack[n])), env)
    ELSE LET a == stack[n-1]  b == stack[n]
             r == CASE tok = "&"  -> KAnd(U, <<a, b>>)
                    [] tok = "|"  -> KOr(U, <<a, b>>)
                    [] tok = "^"  -> KXor(U, <<a, b>>)
                    [] tok = "~^" -> KNot(U, KXor(U, <<a, b>>))
         IN EvalPF(U, ex, i+1, Append(SubSeq(stack, 1, n-2), r), env)
Ev(U, ex, env) == EvalPF(U, ex, 1, <<>>, env)

\* nets driven by blackbox outputs: <<net, instance, pin>>
BBTypeOf(p, t) == p.bbtypes[CHOOSE q \in 1..Len(p.bbtypes) : p.bbtypes[q].type = t]
BBDriven(p) ==
  UNION { LET it == p.items[j] IN
          IF it.k # "bb" THEN {}
          ELSE {<<IdOf(it.conns[q][2][1]), it.inst, it.conns[q][1]>> :
                  q \in {x \in 1..Len(it.conns) : it.conns[x][1] \in Range(BBTypeOf(p, it.type).outs) /\ Len(it.conns[x][2]) = 1
                                                    /\ IsId(it.conns[x][2][1])}}
        : j \in 1..Len(p.items) }
FreeNets(p) == Range(p.inputs) \cup {d[1] : d \in BBDriven(p)}

\* env0 : free net -> value.  Items must be in dependency order: every net an item reads is already in the environment.
RECURSIVE DenFrom(_,_,_,_)
DenFrom(p, U, i, env) ==
  IF i > Len(p.items) THEN [ok |-> TRUE, env |-> env]
  ELSE LET it == p.items[i] IN
    IF it.k = "assign" THEN
         IF ~(ExprNets(it.rhs) \subseteq DOMAIN env) THEN [ok |-> FALSE, env |-> env]
         ELSE DenFrom(p, U, i+1, (it.lhs :> Ev(U, it.rhs, env)) @@ env)
    ELSE IF it.k = "gate" THEN
         IF ~(UNION {ExprNets(it.ins[q]) : q \in 1..Len(it.ins)} \subseteq DOMAIN env) THEN [ok |-> FALSE, env |-> env]
         ELSE \* a primitive gate applies its function to the SEQUENCE of its terminals (repeated nets count twice)
              DenFrom(p, U, i+1, (it.out :> KGate(U, it.t, [q \in 1..Len(it.ins) |-> Ev(U, it.ins[q], env)])) @@ env)
    ELSE DenFrom(p, U, i+1, env)
Den(p, U, env0) == DenFrom(p, U, 1, env0)

\* free signals the parsed circuit may have: inputs and every pin of every instance (unconnected input pins are free too)
RECURSIVE PinCount(_,_)
PinCount(p, j) == IF j > Len(p.items) THEN 0
                  ELSE (IF p.items[j].k = "bb" THEN Len(BBTypeOf(p, p.items[j].type).ins) + Len(BBTypeOf(p, p.items[j].type).outs) ELSE 0)
                       + PinCount(p, j + 1)
ExpectedFree(p) == Len(p.inputs) + PinCount(p, 1)
DrivenNets(p) == {p.items[j].lhs : j \in {x \in 1..Len(p.items) : p.items[x].k = "assign"}}
                 \cup {p.items[j].out : j \in {x \in 1..Len(p.items) : p.items[x].k = "gate"}}

(* ---- parsing: the circuit r denotes the program p (C02, C15 reader) ----
   Free signals of r are its inputs and blackbox output pins; a net driven by <<inst, pin>> takes the pin's value. *)
ParseClauses(p, r) ==
  LET U == StdU(r)
      vr == EvalStd(r)
      drv == BBDriven(p)
      env0 == [nm \in FreeNets(p) |->
                 IF nm \in Range(p.inputs) THEN (IF HasName(r, nm) THEN vr[Idx(r, nm)] ELSE KX(U))
                 ELSE LET d == CHOOSE x \in drv : x[1] = nm IN
                      IF HasName(r, Pin(d[2], d[3])) THEN vr[Idx(r, Pin(d[2], d[3]))] ELSE KX(U)]
      den == Den(p, U, env0)
  IN (IF den.ok THEN {} ELSE {"MACHINERY:items_not_in_dependency_order"})
     \cup {"net_missing:" \o nm : nm \in {x \in DrivenNets(p) \cup FreeNets(p) : ~HasName(r, x)}}
     \cup (IF ~den.ok THEN {} ELSE
           {"net_function:" \o nm : nm \in {x \in DOMAIN den.env : HasName(r, x) /\ vr[Idx(r, x)] # den.env[x]}}
           \cup UNION { LET it == p.items[j] IN
                        IF it.k # "bb" THEN {}
                        ELSE LET bt == BBTypeOf(p, it.type) IN
                             (IF \E b \in 1..Len(r.bbs) : r.bbs[b].inst = it.inst /\ r.bbs[b].type = it.type THEN {} ELSE {"instance_missing:" \o it.inst})
                             \cup {"pin_missing:" \o Pin(it.inst, pn) : pn \in {x \in Range(bt.ins) \cup Range(bt.outs) : ~HasName(r, Pin(it.inst, x))}}
                             \cup UNION { LET pn == it.conns[q][1]  ex == it.conns[q][2] IN
                                          IF ~HasName(r, Pin(it.inst, pn)) \/ Len(ex) = 0 THEN
                                             (IF HasName(r, Pin(it.inst, pn)) /\ Len(ex) = 0
                                                 /\ (Len(r.fi[Idx(r, Pin(it.inst, pn))]) # 0 \/ FoSet(r, Idx(r, Pin(it.inst, pn))) # {})
                                              THEN {"unconnected_pin_is_connected:" \o Pin(it.inst, pn)} ELSE {})
                                          ELSE IF pn \in Range(bt.ins) THEN
                                             (IF ExprNets(ex) \subseteq DOMAIN den.env /\ vr[Idx(r, Pin(it.inst, pn))] = Ev(U, ex, den.env)
                                              THEN {} ELSE {"input_pin_net:" \o Pin(it.inst, pn)})
                                          ELSE (IF Len(ex) = 1 /\ IsId(ex[1]) /\ HasName(r, IdOf(ex[1]))
                                                   /\ Idx(r, Pin(it.inst, pn)) \in FiSet(r, Idx(r, IdOf(ex[1])))
                                                THEN {} ELSE {"output_pin_net:" \o Pin(it.inst, pn)})
                                        : q \in 1..Len(it.conns) }
                      : j \in 1..Len(p.items) })

NetMachinery(c) == (IF WellFormedRec(c) THEN {} ELSE {"MACHINERY:malformed_record"})
                   \cup (IF c.acyc /\ ~IsTopo(c) THEN {"MACHINERY:not_topological"} ELSE {})

(* parse event: e.p (program), e.r (circuit), e.exc, e.expect_reject *)
Judge_parse(e) ==
  IF e.expect_reject THEN (IF e.exc # "" THEN {} ELSE {"bad_port_list_accepted"})
  ELSE IF e.exc # "" THEN {"raised:" \o e.exc}
  ELSE LET p == e.p  r == e.r IN
       NetMachinery(r)
       \cup (IF InputNames(r) = Range(p.inputs) THEN {} ELSE {"inputs_differ_from_declaration"})
       \cup (IF OutputNames(r) = Range(p.outputs) THEN {} ELSE {"outputs_differ_from_declaration"})
       \cup (IF ExpectedFree(p) > MaxBits THEN {}     \* too wide for truth tables (never generated): declarations only
             ELSE IF ~r.acyc \/ NFree(r) > MaxBits THEN {"result_cyclic_or_unexpected_free_signals"} ELSE ParseClauses(p, r))

(* ---- two circuits that must agree: round trips (C03, C15 writer) and fast-vs-full parser (C14) ----
   same name / inputs / outputs / blackbox instances with the same net on every pin; Kleene-equal function at every
   output and blackbox input pin over the common free signals (inputs and blackbox output pins, by name). *)
\* the shared constant nodes are identified by what they are, not by their names
\* (and so are the buffers the readers insert for a REPEATED constant operand of a parity gate, named <constant node>_dup...)
TieRen(c, nm) == LET i == Idx(c, nm)  t == c.ty[i] IN
                 IF t \in Consts /\ HasPrefix(nm, "tie") THEN "<const " \o t \o ">"
                 ELSE IF t = "buf" /\ HasPrefix(nm, "tie") /\ Len(c.fi[i]) = 1 /\ c.ty[c.fi[i][1]] \in Consts
                         /\ HasPrefix(nm, c.names[c.fi[i][1]] \o "_dup")
                      THEN "<const " \o c.ty[c.fi[i][1]] \o ">" \o SubSeq(nm, Len(c.names[c.fi[i][1]]) + 1, Len(nm))
                 ELSE nm
PinNets(c) == { <<c.bbs[b].inst, c.bbs[b].type,
                  {<<pn, {TieRen(c, x) : x \in FiNames(c, Idx(c, Pin(c.bbs[b].inst, pn)))}>> : pn \in {x \in Range(c.bbs[b].ins) : HasName(c, Pin(c.bbs[b].inst, x))}},
                  {<<pn, NamesOf(c, FoSet(c, Idx(c, Pin(c.bbs[b].inst, pn))))>> : pn \in {x \in Range(c.bbs[b].outs) : HasName(c, Pin(c.bbs[b].inst, x))}}>>
                : b \in 1..Len(c.bbs) }
AgreeClauses(a, b, checkName) ==
  (IF ~checkName \/ a.name = b.name THEN {} ELSE {"name"})
  \cup (IF InputNames(a) = InputNames(b) THEN {} ELSE {"inputs"})
  \cup (IF OutputNames(a) = OutputNames(b) THEN {} ELSE {"outputs"})
  \cup (IF PinNets(a) = PinNets(b) THEN {} ELSE {"blackbox_instances_or_pin_nets"})
  \cup (IF a.acyc # b.acyc THEN {"one_circuit_is_cyclic"}
        ELSE IF ~a.acyc \/ NFree(a) > MaxBits THEN {}          \* not evaluable by truth tables: structural clauses only
        ELSE IF FreeNames(a) # FreeNames(b) THEN {"free_signals"}
        ELSE LET U == StdU(a)
                 va == EvalStd(a)
                 vb == Eval(b, U, FvByName(b, StdColByName(a)))
                 obs == Outputs(a) \cup OfType(a, {"bb_input"})
             IN {"function:" \o a.names[i] : i \in {j \in obs : HasName(b, a.names[j]) /\ va[j] # vb[Idx(b, a.names[j])]}}
                \cup {"observable_missing:" \o a.names[i] : i \in {j \in obs : ~HasName(b, a.names[j])}})

(* Verilog write -> read: e.c, e.c2, e.behavioral, e.exc *)
Judge_v_roundtrip(e) ==
  IF e.exc # "" THEN {"raised:" \o e.exc} ELSE
  NetMachinery(e.c) \cup NetMachinery(e.c2) \cup AgreeClauses(e.c, e.c2, TRUE)
  \cup (IF ~e.behavioral /\ OfType(e.c, Consts) = {} /\ ~SameCircuit(e.c, e.c2) THEN {"graph_not_identical"} ELSE {})

(* bench write -> read: same inputs / outputs, same function at every output *)
Judge_bench_roundtrip(e) ==
  IF e.exc # "" THEN {"raised:" \o e.exc} ELSE
  NetMachinery(e.c) \cup NetMachinery(e.c2) \cup AgreeClauses(e.c, e.c2, FALSE)

(* fast parser vs full parser on the same text: e.cf, e.cs, e.excf, e.excs.  Identical graphs after renaming the
   shared constant nodes tie0 <-> tie_0, tie1 <-> tie_1; and the agreement clauses above. *)
RenView(c) == [nodes |-> {TieRen(c, x) : x \in NameSet(c)},
               ty    |-> {<<TieRen(c, c.names[i]), c.ty[i]>> : i \in 1..c.n},
               out   |-> {TieRen(c, x) : x \in OutputNames(c)},
               edges |-> {<<TieRen(c, ed[1]), TieRen(c, ed[2])>> : ed \in EdgeNames(c)},
               bbs   |-> NamedView(c).bbs]
Judge_parse2(e) ==
  IF e.excf # "" \/ e.excs # "" THEN
       (IF e.excf # "" /\ e.excs = "" THEN {"raised_only_by_fast:" \o e.excf} ELSE {})
       \cup (IF e.excs # "" /\ e.excf = "" THEN {"raised_only_by_full:" \o e.excs} ELSE {})
       \cup (IF e.excs # "" /\ e.excf # "" THEN {"raised_by_both:" \o e.excs} ELSE {})
  ELSE NetMachinery(e.cf) \cup NetMachinery(e.cs)
       \cup (IF RenView(e.cf) = RenView(e.cs) THEN {} ELSE {"graphs_differ_beyond_constant_names"})
       \cup AgreeClauses(e.cs, e.cf, TRUE)
=============================================================================

----------------------------- MODULE CGVerilogIO -----------------------------
(***************************************************************************)
(* As-built models of the structural Verilog writer and readers, over the  *)
(* abstract syntax of CGNetlist (what the text says, not how it is laid    *)
(* out):                                                                   *)
(*   WriterProgram(c)      io.circuit_to_verilog(c) (primitive-gate form): *)
(*        one `input` / `output` declaration per input / output (a name    *)
(*        that is both appears twice in the port list), one instance per   *)
(*        blackbox with `.pin(net)` / `.pin()`, the net a blackbox output  *)
(*        drives gets NO statement of its own, one primitive per gate that *)
(*        has operands, `assign n = 1'b<v>` per constant node.             *)
(*   ReaderModel(p, tie)   verilog_to_circuit on a program whose operands  *)
(*        are plain nets or constants: one node per driven net; constants  *)
(*        become shared nodes tie_0 / tie_1 / tie_x (fast parser: tie0 /   *)
(*        tie1); `assign a = b` is a buffer; the net on a blackbox output  *)
(*        pin is a buffer of the pin node.                                 *)
(* MCVerilogIO checks on small families that the writer's program DENOTES  *)
(* the circuit (CGNetlist!ParseClauses), that the reader model's circuit   *)
(* denotes the program, and that reading back what was written gives the   *)
(* circuit itself up to the constant nodes (C03), identically for both     *)
(* readers up to the constants' names (C14).  The judges report drift      *)
(* when the circuit really read differs from the reader model's.           *)
(***************************************************************************)
EXTENDS CGNetlist, CGApi

Opnd(c, j) == IF c.ty[j] \in Consts /\ FALSE THEN <<c.ty[j]>> ELSE <<"$" \o c.names[j]>>
BBItem(c, b) ==
  LET r == c.bbs[b]
      inConn(pn) == LET i == Idx(c, Pin(r.inst, pn)) IN
                    IF Len(c.fi[i]) = 0 THEN <<pn, <<>>>> ELSE <<pn, Opnd(c, c.fi[i][1])>>
      outConn(pn) == LET i == Idx(c, Pin(r.inst, pn))  fo == FoSet(c, i) IN
                     IF fo = {} THEN <<pn, <<>>>> ELSE <<pn, <<"$" \o c.names[CHOOSE x \in fo : TRUE]>>>>
  IN [k |-> "bb", type |-> r.type, inst |-> r.inst,
      conns |-> [q \in 1..Len(r.ins) |-> inConn(r.ins[q])] \o [q \in 1..Len(r.outs) |-> outConn(r.outs[q])]]
\* the nets that get no statement: the (single) load of every blackbox output pin
BBLoads(c) == UNION {FoSet(c, i) : i \in OfType(c, {"bb_output"})}
NodeItem(c, i) ==
  IF c.ty[i] \in Consts THEN << [k |-> "assign", lhs |-> c.names[i], rhs |-> <<c.ty[i]>>] >>
  ELSE IF c.ty[i] \in Gates /\ Len(c.fi[i]) > 0 /\ ~(i \in BBLoads(c) /\ \A j \in Range(c.fi[i]) : c.ty[j] = "bb_output")
       THEN << [k |-> "gate", t |-> c.ty[i], out |-> c.names[i], ins |-> [q \in 1..Len(c.fi[i]) |-> Opnd(c, c.fi[i][q])]] >>
  ELSE <<>>
RECURSIVE NodeItems(_,_)
NodeItems(c, i) == IF i > c.n THEN <<>> ELSE NodeItem(c, i) \o NodeItems(c, i + 1)
NameSeq(c, S) == LET idxs == SelectSeq([q \in 1..c.n |-> q], LAMBDA q : q \in S) IN [q \in 1..Len(idxs) |-> c.names[idxs[q]]]
\* c : indexed circuit in topological order (items then are in dependency order)
WriterProgram(c) ==
  [name |-> c.name, ports |-> NameSeq(c, Inputs(c)) \o NameSeq(c, Outputs(c)),
   inputs |-> NameSeq(c, Inputs(c)), outputs |-> NameSeq(c, Outputs(c)),
   items |-> [b \in 1..Len(c.bbs) |-> BBItem(c, b)] \o NodeItems(c, 1),
   bbtypes |-> LET T == {c.bbs[b].type : b \in 1..Len(c.bbs)}
                   ts == LET RECURSIVE Sq(_) Sq(S) == IF S = {} THEN <<>> ELSE LET x == CHOOSE y \in S : TRUE IN <<x>> \o Sq(S \ {x}) IN Sq(T)
               IN [q \in 1..Len(ts) |-> LET r == c.bbs[CHOOSE b \in 1..Len(c.bbs) : c.bbs[b].type = ts[q]] IN
                                        [type |-> ts[q], ins |-> r.ins, outs |-> r.outs]]]

(* ---- reader ---- *)
SimpleOpnd(ex) == Len(ex) = 1 /\ (IsId(ex[1]) \/ ex[1] \in Consts)
SimpleProgram(p) ==
  \A j \in 1..Len(p.items) : LET it == p.items[j] IN
     CASE it.k = "gate"   -> (\A q \in 1..Len(it.ins) : SimpleOpnd(it.ins[q]))
                             /\ Cardinality({it.ins[q] : q \in 1..Len(it.ins)}) = Len(it.ins)     \* no repeated operand
       [] it.k = "assign" -> SimpleOpnd(it.rhs)
       [] it.k = "bb"     -> \A q \in 1..Len(it.conns) : Len(it.conns[q][2]) = 0 \/ SimpleOpnd(it.conns[q][2])
NetOf(ex, tie) == IF IsId(ex[1]) THEN IdOf(ex[1]) ELSE tie \o ex[1]
ConstsUsed(p) ==
  UNION { LET it == p.items[j] IN
          CASE it.k = "gate"   -> {it.ins[q][1] : q \in {x \in 1..Len(it.ins) : ~IsId(it.ins[x][1])}}
            [] it.k = "assign" -> IF IsId(it.rhs[1]) THEN {} ELSE {it.rhs[1]}
            [] it.k = "bb"     -> {it.conns[q][2][1] : q \in {x \in 1..Len(it.conns) : Len(it.conns[x][2]) = 1 /\ ~IsId(it.conns[x][2][1])}}
        : j \in 1..Len(p.items) }
\* named state [nodes, ty, out, edges, bbs]
ReaderModel(p, tie) ==
  LET gates == {j \in 1..Len(p.items) : p.items[j].k = "gate"}
      asg   == {j \in 1..Len(p.items) : p.items[j].k = "assign"}
      bbs   == {j \in 1..Len(p.items) : p.items[j].k = "bb"}
      bt(j) == BBTypeOf(p, p.items[j].type)
      inPins  == UNION {{Pin(p.items[j].inst, pn) : pn \in Range(bt(j).ins)} : j \in bbs}
      outPins == UNION {{Pin(p.items[j].inst, pn) : pn \in Range(bt(j).outs)} : j \in bbs}
      drv == BBDriven(p)
      ties == {tie \o v : v \in ConstsUsed(p)}
      N == Range(p.inputs) \cup {p.items[j].out : j \in gates} \cup {p.items[j].lhs : j \in asg}
           \cup inPins \cup outPins \cup {d[1] : d \in drv} \cup ties
      tyOf(x) == IF x \in Range(p.inputs) THEN "input"
                 ELSE IF x \in inPins THEN "bb_input" ELSE IF x \in outPins THEN "bb_output"
                 ELSE IF x \in ties THEN SubSeq(x, Len(tie) + 1, Len(x))
                 ELSE IF \E j \in gates : p.items[j].out = x THEN p.items[CHOOSE j \in gates : p.items[j].out = x].t
                 ELSE "buf"
      E == UNION {{<<NetOf(p.items[j].ins[q], tie), p.items[j].out>> : q \in 1..Len(p.items[j].ins)} : j \in gates}
           \cup {<<NetOf(p.items[j].rhs, tie), p.items[j].lhs>> : j \in asg}
           \cup {<<Pin(d[2], d[3]), d[1]>> : d \in drv}
           \cup UNION {{<<NetOf(p.items[j].conns[q][2], tie), Pin(p.items[j].inst, p.items[j].conns[q][1])>> :
                          q \in {x \in 1..Len(p.items[j].conns) : Len(p.items[j].conns[x][2]) = 1
                                                                     /\ p.items[j].conns[x][1] \in Range(bt(j).ins)}} : j \in bbs}
  IN [nodes |-> N, ty |-> [x \in N |-> tyOf(x)], out |-> [x \in N |-> x \in Range(p.outputs)], edges |-> E,
      bbs |-> [b \in {p.items[j].inst : j \in bbs} |->
                 LET j == CHOOSE k \in bbs : p.items[k].inst = b IN
                 [type |-> p.items[j].type, ins |-> Range(bt(j).ins), outs |-> Range(bt(j).outs)]]]
\* what reading back the written text of c must give: c with every constant node n of value v turned into a buffer of tie_v
ConstExpanded(st, tie) ==
  LET K == {x \in st.nodes : st.ty[x] \in Consts}
      T == {tie \o st.ty[x] : x \in K}
      N == st.nodes \cup T
  IN [st EXCEPT !.nodes = N,
                !.ty  = [x \in N |-> IF x \in T THEN SubSeq(x, Len(tie) + 1, Len(x)) ELSE IF x \in K THEN "buf" ELSE st.ty[x]],
                !.out = [x \in N |-> IF x \in T THEN FALSE ELSE st.out[x]],
                !.edges = st.edges \cup {<<tie \o st.ty[x], x>> : x \in K}]

(* ---- drift clauses: the circuit really read against the reader model (information, never a violation) ---- *)
NoTieNames(S) == \A x \in S : ~HasPrefix(x, "tie")
ProgNets(p) == Range(p.inputs) \cup Range(p.outputs) \cup DrivenNets(p)
ModelApplies(p) == SimpleProgram(p) /\ NoTieNames(ProgNets(p) \cup FreeNets(p))       \* (nets driven by blackbox outputs included)
                   /\ Cardinality(DrivenNets(p)) = Cardinality({j \in 1..Len(p.items) : p.items[j].k \in {"gate", "assign"}})   \* one driver per net
DriftParse(e) ==
  IF "dialect" \in DOMAIN e /\ e.dialect = "verilog" /\ ~e.expect_reject /\ e.exc = "" /\ WellFormedRec(e.r) /\ e.r.n <= 16
     /\ ModelApplies(e.p) /\ ToNamed(e.r) # ReaderModel(e.p, "tie_")
  THEN {"DRIFT:parsed_circuit_differs_from_reader_model"} ELSE {}
DriftRoundTrip(e) ==
  IF e.exc = "" /\ ~e.behavioral /\ WellFormedRec(e.c) /\ WellFormedRec(e.c2) /\ e.c.n <= 16 /\ NoTieNames(NameSet(e.c))
     /\ ToNamed(e.c2) # ReaderModel(WriterProgram(e.c), "tie_")
  THEN {"DRIFT:circuit_read_back_differs_from_reader_model_of_writer_model"} ELSE {}
DriftParse2(e) ==
  IF "p" \in DOMAIN e /\ e.excf = "" /\ e.excs = "" /\ WellFormedRec(e.cf) /\ WellFormedRec(e.cs) /\ e.cs.n <= 16 /\ ModelApplies(e.p)
  THEN (IF ToNamed(e.cs) # ReaderModel(e.p, "tie_") THEN {"DRIFT:parsed_circuit_differs_from_reader_model"} ELSE {})
       \cup (IF ToNamed(e.cf) # ReaderModel(e.p, "tie") THEN {"DRIFT:fast_parsed_circuit_differs_from_reader_model"} ELSE {})
  ELSE {}
=============================================================================

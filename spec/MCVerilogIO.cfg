INIT Init
NEXT Next
INVARIANT WriterDenotes
INVARIANT ReaderDenotes
INVARIANT RoundTrip
INVARIANT RoundTripRel
INVARIANT ReadersAgree

------------------------------- MODULE MCSens -------------------------------
(***************************************************************************)
(* As-built model of props.sensitivity's search.  The sensitivity circuit  *)
(* encodes, per input pattern, the number of sensitive startpoints on      *)
(* clog2(m+1) output bits.  The code starts at sen = m and decrements      *)
(* until a SAT query "sen_out_i = bit i of sen, for the bits that          *)
(* int_to_bin(sen, clog2(m)) produces" succeeds.  int_to_bin never         *)
(* truncates, so for sen = m = 2^k it yields k+1 bits, for smaller sen     *)
(* only k bits (the top output bit is then unconstrained).                 *)
(* Checked: for every m in 1..8 and EVERY non-empty set C of achievable    *)
(* counts the search returns max(C).                                       *)
(***************************************************************************)
EXTENDS Integers, FiniteSets, TLC

RECURSIVE Clog2From(_,_,_)
Clog2From(n, sh, acc) == IF n > sh THEN Clog2From(n, 2 * sh, acc + 1) ELSE acc
Clog2(n) == Clog2From(n, 1, 0)
RECURSIVE NBits(_)
NBits(i) == IF i <= 1 THEN 1 ELSE 1 + NBits(i \div 2)          \* length of bin(i)
Width(i, w) == IF NBits(i) > w THEN NBits(i) ELSE w             \* zfill never truncates
Bit(x, j) == (x \div (2^j)) % 2
\* the query for candidate sen matches an achievable count cnt iff the produced bits agree
Matches(m, sen, cnt) == \A j \in 0..(Width(sen, Clog2(m)) - 1) : Bit(cnt, j) = Bit(sen, j)

VARIABLES m, C, sen, done
vars == <<m, C, sen, done>>
Init == /\ m \in 1..8 /\ C \in (SUBSET (0..m)) \ {{}} /\ sen = m /\ done = FALSE
Step == /\ ~done
        /\ IF \E cnt \in C : Matches(m, sen, cnt) THEN done' = TRUE /\ sen' = sen
           ELSE done' = FALSE /\ sen' = sen - 1
        /\ UNCHANGED <<m, C>>
Spec == Init /\ [][Step]_vars
MaxOf(S) == CHOOSE x \in S : \A y \in S : y <= x
ReturnsMax == done => sen = MaxOf(C)
NeverNegative == sen >= 0
=============================================================================

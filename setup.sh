#!/bin/sh
# Offline setup: parse every specification module with SANY, byte-compile nothing (sources run as they are),
# create output directories.  Uses only what is installed in the sandbox.
cd "$(dirname "$0")" || exit 1
mkdir -p evidence replays
fail=0
for m in spec/*.tla; do
  out=$(java -DTLA-Library=spec -cp /opt/veriftools/tla/tla2tools.jar:/opt/veriftools/tla/CommunityModules-deps.jar tla2sany.SANY "$m" 2>&1)
  if echo "$out" | grep -q -E "\*\*\* Errors|Fatal|Could not"; then echo "SANY failed on $m"; echo "$out" | tail -15; fail=1; fi
done
PYTHONPATH=harness:/repo /venv/bin/python -c "import cgv.runner, cgv.drive, cgv.gen, cgv.proj, cgv.tlc" || fail=1
exit $fail

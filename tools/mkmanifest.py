#!/venv/bin/python
"""Regenerates /verif/MANIFEST.json from the table below (one entry per claimed property)."""
import json
import os

ROOT = os.path.dirname(os.path.dirname(os.path.abspath(__file__)))

TECH = "TLA+ spec + TLC: as-built model checked exhaustively (MC_*), TLC-generated families replayed into the code, recorded calls judged by TLC trace validation"
NOTE = ("Trusted: TLC and the CommunityModules JSON reader; the projection of networkx objects to indexed circuits "
        "(harness/cgv/proj.py; topological hints re-checked by the spec); the pysat/approxmc stand-ins only for "
        "interface fidelity (their answers are re-judged by TLC). Bounded: families and sizes as recorded in the "
        "evidence file on every run.")

CLAIMED = {
    "C02": ("CGNetlist gives the denotation Den(program) of the structural Verilog subset (Kleene truth table of every net); "
            "seeded programs (any statement order, nesting, repeated sub-expressions, constants, blackbox instances with "
            "connected/unconnected/omitted pins, synthetic-looking and escaped names, comments, blanks) are parsed by the real "
            "LALR parser and TLC judges the circuit against Den; disagreeing port lists must be rejected. CGExprReader is the "
            "as-built machine of the reader (statements in text order, invented gate names, reserved identifiers): MCExprReader "
            "checks that its circuit denotes the program for 9144 small programs in both statement orders (and reproduces the "
            "repaired capture defects when run without reserved identifiers); the circuit the real reader builds must equal "
            "the machine's (drift clause, about 500 events per quick run).", "6 C02"),
    "C03": ("circuit_to_verilog -> verilog_to_circuit (both styles, and to_file/from_file) on TLC-enumerated G1/G2 and random "
            "circuits with constants, feed-through outputs, flops with unconnected pins, escaped names; TLC judges name, io, "
            "instances and pin nets, Kleene-equal functions, identical graph for the gate form without constants. CGVerilogIO / "
            "CGExprReader model the writer (both styles) and the readers: MCVerilogIO and MCBehavioural check the round trip "
            "inside the model for about 5700 circuits each; the text the real writer produced is read back into abstract syntax "
            "and compared with the writer model, and the circuit read back with the reader machine (drift clauses).", "6 C03"),
    "C13": ("Every generated block (adder, mux, popcount, half/full adder; widths to 64) is evaluated by TLC from its recorded "
            "structure on all vectors (<= 11 inputs) or recorded corner + random vectors, against arithmetic on bit sequences "
            "in the specification; clog2 and int_to_bin/bin_to_int judged on exhaustive small and wide values.", "6 C13"),
    "C14": ("Programs of the fast parser's documented subset, laid out like the writer with arbitrary non-empty blank runs, the "
            "writer's own output and bundled c17 netlists are parsed by both parsers; TLC judges identical graphs up to constant "
            "names, same io / instances / pin nets and Kleene-equal functions; MCVerilogIO checks that the two reader models "
            "satisfy the same relation on every written program of the families; both real readers must equal their models "
            "(drift clauses).", "6 C14"),
    "C15": ("Bench programs (any line order, case, DFF chains, blank variants) are parsed by the real reader and judged by TLC "
            "against Den(program); circuit_to_bench -> bench_to_circuit round trips on G1/G2/random circuits with constants are "
            "judged for io and function equality. CGBenchIO models writer and reader (constants as parity of any one input with "
            "itself, uid-numbered _dup buffers in text order: a set of results); MCBenchIO checks the round trip inside the model "
            "for 15286 circuit / input pairs; real results must be among the model's (drift clauses, every event).", "6 C15"),
    "C04": ("Every recorded tx.miter result (self, copy, fan-in-limited, mutated and arbitrary pairs from TLC-enumerated G1/G2 and "
            "random circuits; startpoint/endpoint choices None, all, subsets, singletons) is judged by TLC: inputs = tied "
            "startpoints, output sat, truth table of sat = union of per-endpoint differences with untied startpoints independent; "
            "solve(miter, {sat: True}) is judged as in C01.", "6 C04"),
    "C09": ("Recorded unroll / sequential_unroll results are judged by TLC against iterated execution computed in the specification "
            "(RunSteps/SeqSteps): io_map node of output o at step t = value after t+1 steps; inputs/outputs exactly as stated; all "
            "flag combinations and initial-value forms.", "6 C09"),
    "C10": ("MCTernary: the as-built dual-rail construction equals Kleene evaluation for every G1 gate; recorded ternary() results "
            "on G1/G2/random circuits are judged by TLC over every (value, X) pattern.", "6 C10"),
    "C11": ("MCSens: the as-built descending search returns the maximum for every cone size 1..8 and every count profile; recorded "
            "sensitization_transform, sensitize, sensitivity_transform, sensitivity, influence, avg_sensitivity results are judged by "
            "TLC from the flip-node / flip-input definitions on truth-table sets.", "6 C11"),
    "C17": ("Recorded supergates results (list and super-circuit form) are judged by TLC declaratively: single output, induced "
            "wiring, cover, disjoint input fan-in, order, composition reproduces every output. CGSupergates is the as-built model "
            "(per-cone dominators from their definition, block expansion, cover filter, keyed dict): MCSupergates checks the whole "
            "relation on every possible result for one-output, disjoint-cone and shared-cone families (the last one after a "
            "repair that was model-checked first); real results must be among the model's. One open known finding (overlapping "
            "blocks of two cones make the ordering graph cyclic, about 1 in 1000 random multi-output circuits).", "6 C17"),
    "C18": ("Recorded acyclic_unroll results on cyclic circuits are judged by TLC with the all-bits method: acyclic, lint-clean, same "
            "outputs, and every stable state of the original is reproduced at every output when the auxiliary inputs carry the "
            "stable values. MCFas is the as-built state machine of the feedback-arc heuristic (every digraph on 3-4 nodes, 5 in "
            "thorough, every tie-break: the cut always breaks every cycle, terminates); MCAcyclicUnroll judges the unroll program "
            "for every feedback set the heuristic can return; the recorded feedback set and circuit must be among the model's.", "6 C18"),
    "C06": ("Every recorded add_subcircuit / fill_blackbox / strip_blackboxes call (random parents with and without flops, "
            "library and random children incl. nested blackboxes and feed-through pins, every connection choice, repeated "
            "instantiation, fill after add_blackbox) is judged by TLC (JudgeComp): structural clauses plus functional "
            "substitution by Kleene truth tables; the API machine MCApi (shared with C07) model-checks add_subcircuit / "
            "fill_blackbox histories.", "6 C06"),
    "C16": ("MCRemoveUnloaded: the as-built worklist equals the declarative result (exactly the dead gates/constants, and dead "
            "inputs on request) and is idempotent on every DAG shape <= 5 nodes x output markings x flags x EVERY pop order; "
            "recorded remove_unloaded calls (applied twice) on all typed DAG5 shapes and random circuits with grafted dead logic "
            "and flops, several hash seeds, are judged by TLC against DeadSet and against the as-built model.", "6 C16"),
    "C19": ("CGHeap/MCHeap: on a heap of separately allocated graph/registry parts, correct calls keep NoSharing, ArgsUnchanged "
            "and edit isolation (an aliasing/mutating call is the expected counterexample); every public function and read-only "
            "method (enumerated at run time) is called with valid and invalid arguments, argument snapshots around each call and "
            "around scripted edits of result and argument are judged by TLC (JudgeFrame).", "6 C19"),
    "C07": ("CGApi models the construction API as a state machine (one operator per call, composed at the code's failure points). "
            "MCApi: every history of depth 4 from the empty circuit over a small universe, MCApiStep: one rich call from every "
            "legal circuit over the universe (inductive step) - TypeOK, LegalWiring, BBConsistent, RejectedAddsNoEdge hold (TLC "
            "found two real counterexample histories, since repaired). Conformance both ways: TLC-simulated behaviours and EVERY "
            "transition of the connect-, add- and composition-focused configs are replayed on a real Circuit and compared; seeded "
            "random histories and the API histories of the repository's own test suite (mutators wrapped at run time, about 400 "
            "histories / 2000 calls) are judged step by step by TLC (JudgeApi).", "6 C07"),
    "C20": ("CGLint states lint's rules one by one; the outcome of cg.lint under all 16 flag combinations on TLC-enumerated "
            "two-node graphs (all types incl. missing/unsupported, all edges, registry), random ill-formed and well-formed graphs "
            "is judged by TLC (raises ValueError iff a rule is violated); outputs of generators, composition calls and transforms "
            "are judged lint-clean by the spec and by cg.lint.", "6 C20"),
    "C08": ("MCCount: the as-built enumeration loop of model_count (any model, block on startpoints) counts every startpoint "
            "projection exactly once for every solver choice order; every recorded model_count / signal_probability result "
            "and every DIMACS file captured from approx_model_count is judged by TLC against Count(c, A) computed from "
            "truth-table sets (all-bits for cyclic circuits and for the captured clauses).", "6 C08"),
    "C12": ("MCDepth: the as-built recursive depth visit returns the longest path for every DAG shape on <= 5 nodes, every "
            "start node and every visiting order; MCPaths: the networkx simple-path search behind Circuit.paths as a machine yields "
            "exactly the simple paths within the cutoff on every 4-node digraph (beyond the statement, drift only); every query result of the real code on all 4-node digraphs, all 5-node DAG "
            "shapes, 6-node DAG shapes and random typed DAGs is judged by TLC against the definitions of CGGraph.", "6 C12"),
    "C01": ("MCTseitin: the as-built Tseitin encoder model is exact for every G1 gate (all types, fan-in 1..4, constants, "
            "nested gate) and parity pairs under every fan-in iteration order; every recorded sat.cnf clause list and "
            "every sat.solve answer of the real code (G1/G2/cyclic/NAMES/blackbox/random circuits, many assumption sets, "
            "several hash seeds) is judged by TLC against Consistent(c).", "6 C01"),
    "C05": ("Every recorded limit_fanin/limit_fanout/insert_registers/acyclic_unroll call on TLC-enumerated families (G1, G2, "
            "W) and random DAGs under several hash seeds is judged by TLC: bound respected, io unchanged, every original node "
            "keeps its Kleene truth table; MCLimitFanin explores every operand-grouping order of the as-built loop; MCLimitFanout "
            "and MCInsertRegs judge every possible result of the as-built limit_fanout loop / the insert_registers program on all "
            "DAG shapes with 5 (6) nodes; recorded results must be among the models' results (drift clauses).", "6 C05"),
}


def main():
    props = [json.loads(l) for l in open(os.path.join(ROOT, "properties.jsonl"))]
    checks = []
    for p in props:
        pid = p["id"]
        if pid not in CLAIMED:
            continue
        text, ref = CLAIMED[pid]
        checks.append({
            "property_id": pid,
            "quick_cmd": "./check %s --tier quick" % pid,
            "thorough_cmd": "./check %s --tier thorough" % pid,
            "evidence_file": "evidence/%s.json" % pid,
            "replay_cmd_template": "./check %s --replay {path}" % pid,
            "engine": "tlc",
            "level_claimed": {"category": "model_checking", "text": text, "design_ref": "DESIGN.md section " + ref},
            "level_note": NOTE,
            "technique": TECH,
        })
    m = {
        "version": 1,
        "setup_cmd": "./setup.sh",
        "hooks": {
            "guard": "CG_VERIF_TRACE",
            "enable": "no source hooks: the harness wraps/drives circuitgraph at run time in its own processes (PYTHONPATH=harness/shim:harness:/repo, CG_VERIF_TRACE=1); /repo is imported from its working tree",
            "baseline_off_cmd": "cd /repo && /venv/bin/python -m pytest -ra -q -p no:cacheprovider --timeout=900 --continue-on-collection-errors",
            "source_commits": [],
            "add_only": True,
        },
        "engines": [{"name": "tlc", "path": "spec/", "serves_properties": sorted(CLAIMED),
                     "kind_free_text": "explicit TLA+ specification (spec/*.tla) checked with TLC 1.8: MC_* configs (exhaustive small scope), Gen* (families emitted as JSON), Trace (trace validation of recorded calls of the real code)"}],
        "checks": checks,
        "notes": "See DESIGN.md. ./check <id> [--tier quick|thorough] [--seed N] [--replay path]; exit 0 held, 1 violation, 2 machinery failure. known_findings.json lists fixed/open genuine defects.",
        "not_applicable": [{"property_id": p["id"], "reason": "check not built yet (framework under construction; will be claimed once its check exists)"}
                           for p in props if p["id"] not in CLAIMED],
    }
    with open(os.path.join(ROOT, "MANIFEST.json"), "w") as f:
        json.dump(m, f, indent=1)
    print("claimed:", sorted(CLAIMED))


if __name__ == "__main__":
    main()

#!/venv/bin/python
import json, sys
r = json.load(open(sys.argv[1])); e = r['event']
print("FAILED:", r['failed'], "hashseed", r.get('hashseed'))
if 'text' in e: print(e['text'])
for k in ('r','c2','cf','cs'):
    if k in e and e[k]:
        c = e[k]; print(k, [(n,t,'O' if o else '',[c['names'][j-1] for j in fi]) for n,t,o,fi in zip(c['names'],c['ty'],c['out'],c['fi'])], c.get('bbs'))
if 'exc' in e: print('exc', e['exc'])

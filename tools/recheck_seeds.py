#!/venv/bin/python
"""recheck_seeds.py [-j N] [pattern ...]: re-run the quick check of every kept seeded change (seeded/<Cnn>-r<k><A|B>/patch.diff)
against the CURRENT /repo HEAD and the current checks (regression test of the checks themselves: generator changes must
not lose an earlier detection).  Prints one line per seeded change: caught / MISSED / patch-does-not-apply."""
import concurrent.futures
import glob
import json
import os
import re
import subprocess
import sys

ROOT = os.path.dirname(os.path.dirname(os.path.abspath(__file__)))
args = sys.argv[1:]
jobs = 3
if args[:1] == ["-j"]:
    jobs = int(args[1])
    args = args[2:]


def one(d):
    name = os.path.basename(d)
    prop = name.split("-")[0]
    m = json.load(open(os.path.join(d, "meta.json")))
    if m.get("detected_by_quick_check_of"):
        prop = m["detected_by_quick_check_of"]
    patch = os.path.join(d, "patch_ported.diff") if os.path.exists(os.path.join(d, "patch_ported.diff")) else os.path.join(d, "patch.diff")
    out = subprocess.run([os.path.join(ROOT, "tools", "try_mutant.sh"), patch, prop], capture_output=True, text=True,
                         env=dict(os.environ, VERIF_ROOT=ROOT)).stdout
    if "patch does not apply" in out:
        return name, "patch-does-not-apply"
    mm = re.search(r"exit=(\d+)", out)
    rc = int(mm.group(1)) if mm else -1
    if rc == 0 and m.get("reported_as"):
        return name, "caught-as-drift-by-design"      # does not violate the property as stated (see its meta.json)
    return name, "caught" if rc == 1 else ("MISSED" if rc == 0 else "exit %d" % rc)


dirs = sorted(glob.glob(os.path.join(ROOT, "seeded", "C*-r*")))
if args:
    dirs = [d for d in dirs if any(re.search(a, os.path.basename(d)) for a in args)]
with concurrent.futures.ThreadPoolExecutor(jobs) as ex:
    for name, res in ex.map(one, dirs):
        print(name, res, flush=True)

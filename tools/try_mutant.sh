#!/bin/sh
# try_mutant.sh <patch.diff> <Cnn> [tier]  -- run the property's check against a seeded change.
# The change is applied to a scratch worktree of /repo HEAD (CGV_REPO points the drivers at it), so /repo itself is
# never left modified; this is equivalent to `git -C /repo apply; ./check; git -C /repo checkout -- .`.
P=$1; ID=$2; TIER=${3:-quick}
ROOT=${VERIF_ROOT:-/verif}
WT=$(mktemp -d /tmp/wtm.XXXXXX)
git -C /repo worktree add -q --detach "$WT" HEAD || exit 2
if ! git -C "$WT" apply "$P"; then echo "patch does not apply"; git -C /repo worktree remove --force "$WT"; exit 2; fi
LOG=$(mktemp /tmp/try_mutant_${ID}.XXXXXX)
(cd "$ROOT" && CGV_REPO="$WT" ./check "$ID" --tier "$TIER" --no-evidence > "$LOG" 2>&1); rc=$?
git -C /repo worktree remove --force "$WT"
grep -E "^(VIOLATION|KNOWN|MACHINERY|C[0-9]+ )" "$LOG" | cut -c1-220 | head -8
rm -f "$LOG"
echo "exit=$rc"

#!/bin/sh
# try_mutant.sh <patch.diff> <Cnn> [tier]  -- apply a seeded change to /repo, run the check, undo it straight afterwards.
P=$1; ID=$2; TIER=${3:-quick}
cd /repo || exit 2
git diff --quiet || { echo "/repo has uncommitted changes"; exit 2; }
git apply "$P" || { echo "patch does not apply"; exit 2; }
cd /verif && ./check "$ID" --tier "$TIER" > /tmp/try_mutant_$ID.log 2>&1; rc=$?
git -C /repo checkout -- .
grep -E "^(VIOLATION|KNOWN|MACHINERY|C[0-9]+ )" /tmp/try_mutant_$ID.log | cut -c1-220 | head -8
echo "exit=$rc"

#!/bin/sh
# verify_seed.sh <dir-with-patch.diff-and-demo.py>   -- confirms a seeded change in a scratch worktree of /repo HEAD:
#   (1) patch applies, (2) the 42 baseline tests still pass with it, (3) demo fails with it, (4) demo passes without it.
D=$(cd "$1" && pwd)
WT=$(mktemp -d /tmp/wtv.XXXXXX)
git -C /repo worktree add -q --detach "$WT" HEAD || exit 2
cd "$WT"
base_ok=1
PYTHONPATH="$WT" /venv/bin/python "$D/demo.py" >/dev/null 2>&1 && echo "demo-clean: pass" || { echo "demo-clean: FAIL"; base_ok=0; }
if git apply "$D/patch.diff" 2>/dev/null; then echo "apply: ok"; else echo "apply: FAILED"; git -C /repo worktree remove --force "$WT"; exit 1; fi
/venv/bin/python -m pytest -q -p no:cacheprovider --timeout=900 --continue-on-collection-errors -x --co -q >/dev/null 2>&1
R=$(/venv/bin/python -m pytest -q -p no:cacheprovider --timeout=900 --continue-on-collection-errors 2>&1 | tail -1)
echo "tests: $R"
PYTHONPATH="$WT" /venv/bin/python "$D/demo.py" >/dev/null 2>&1 && echo "demo-mutant: pass (BAD)" || echo "demo-mutant: fails (good)"
cd /; git -C /repo worktree remove --force "$WT"

#!/venv/bin/python
"""Prints the markdown table of seeded changes from /verif/seeded/*/meta.json (and can splice it into DESIGN.md)."""
import glob
import json
import os
import sys

rows = []
for f in sorted(glob.glob("/verif/seeded/*/meta.json")):
    m = json.load(open(f))
    name = os.path.basename(os.path.dirname(f))
    note = " ".join(m["what_it_needs_to_manifest"].split())
    note = note.replace("|", "/")[:230]
    det = "**caught** (quick)" if m["detected_by_quick_check"] else ("MISSED" if m["check_exit_code"] == 0 else "exit %s" % m["check_exit_code"])
    if not m["detected_by_quick_check"] and m.get("reported_as"):
        det = "not a violation of the property as stated; reported as model drift"
    if not m["detected_by_quick_check"] and m.get("detected_by_quick_check_of"):
        det = "outside this property; **caught by %s** (quick)" % m["detected_by_quick_check_of"]
    cl = m.get("first_violation_line", "")
    cl = cl.split("clauses=")[-1][:70] if cl else ""
    rows.append("| %s | %s | %s | %s | %s |" % (name, "yes" if m["confirmed"] else "NO", det, cl.replace("|", "/"), note))
tab = ("| seeded change | confirmed (tests pass, demo fails with / passes without) | quick check of its property | first failed clauses | what it is / needs |\n"
       "|---|---|---|---|---|\n" + "\n".join(rows))
caught = sum("**caught** (quick)" in r for r in rows)
summary = ("%d seeded changes kept (each confirmed in a scratch worktree of /repo HEAD: patch applies, the baseline tests still pass, the "
           "sub-agent's demonstration fails with the change and passes without it); %d are caught by the quick check of their property.\n\n" % (len(rows), caught))
if len(sys.argv) > 1 and sys.argv[1] == "--splice":
    s = open("/verif/DESIGN.md").read()
    a = s.index("<!-- SEEDTABLE BEGIN -->") + len("<!-- SEEDTABLE BEGIN -->\n")
    b = s.index("<!-- SEEDTABLE END -->")
    s = s[:a] + summary + tab + "\n" + s[b:]
    open("/verif/DESIGN.md", "w").write(s)
    print("spliced", len(rows), "rows;", caught, "caught")
else:
    print(summary + tab)

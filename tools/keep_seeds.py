#!/venv/bin/python
"""keep_seeds.py <seed-root> <round>: for every <Cnn>/<A|B> under seed-root: confirm the seeded change in a scratch worktree
(applies, baseline tests unchanged, demo fails with / passes without), run the property's quick check against it
(apply to /repo, check, undo), and store patch + demo + meta.json under /verif/seeded/<Cnn>-r<round><A|B>/."""
import json
import os
import re
import shutil
import subprocess
import sys

ROOT = os.environ.get("VERIF_ROOT", "/verif")
root, rnd = sys.argv[1], sys.argv[2]
only = sys.argv[3:]  # optional list like C07/A


def sh(cmd, **kw):
    return subprocess.run(cmd, shell=True, capture_output=True, text=True, **kw)


for prop in sorted(os.listdir(root)):
    if not re.fullmatch(r"C\d\d", prop):
        continue
    for var in ("A", "B"):
        d = os.path.join(root, prop, var)
        if only and "%s/%s" % (prop, var) not in only:
            continue
        if not os.path.exists(os.path.join(d, "demo.py")):
            continue
        patch = os.path.join(d, "patch_ported.diff") if os.path.exists(os.path.join(d, "patch_ported.diff")) else os.path.join(d, "patch.diff")
        demo = os.path.join(d, "demo_adapted.py") if os.path.exists(os.path.join(d, "demo_adapted.py")) else os.path.join(d, "demo.py")
        import tempfile
        tmp = tempfile.mkdtemp(prefix="verify_%s_%s_" % (prop, var))
        shutil.copy(patch, os.path.join(tmp, "patch.diff"))
        shutil.copy(demo, os.path.join(tmp, "demo.py"))
        v = sh("/verif/tools/verify_seed.sh %s" % tmp).stdout
        ok = ("demo-clean: pass" in v and "apply: ok" in v and "demo-mutant: fails" in v and re.search(r"tests: 25 failed, 44 passed", v))
        t = sh("/verif/tools/try_mutant.sh %s %s" % (os.path.join(tmp, "patch.diff"), prop)).stdout
        m = re.search(r"exit=(\d+)", t)
        rc = int(m.group(1)) if m else -1
        first = [l for l in t.splitlines() if l.startswith("VIOLATION")][:1]
        out = os.path.join(ROOT, "seeded", "%s-r%s%s" % (prop, rnd, var))
        shutil.rmtree(out, ignore_errors=True)
        os.makedirs(out)
        shutil.copy(os.path.join(tmp, "patch.diff"), os.path.join(out, "patch.diff"))
        shutil.copy(os.path.join(tmp, "demo.py"), os.path.join(out, "demo.py"))
        note = open(os.path.join(d, "note.md")).read() if os.path.exists(os.path.join(d, "note.md")) else ""
        meta = {
            "property": prop,
            "round": int(rnd),
            "variant": var,
            "what_it_needs_to_manifest": note.strip()[:1500],
            "ported_to_fixed_tree": patch.endswith("patch_ported.diff"),
            "demo_adapted": demo.endswith("demo_adapted.py"),
            "confirmed": bool(ok),
            "confirmation_log": v.strip().splitlines(),
            "what_i_ran": ["tools/verify_seed.sh <dir>  (scratch worktree of /repo HEAD: git apply, baseline pytest, demo with and without the change)",
                           "tools/try_mutant.sh patch.diff %s quick  (scratch worktree of /repo HEAD + git apply; CGV_REPO=<worktree> ./check %s --tier quick; worktree removed)" % (prop, prop)],
            "check_exit_code": rc,
            "detected_by_quick_check": rc == 1,
            "first_violation_line": first[0][:300] if first else "",
        }
        with open(os.path.join(out, "meta.json"), "w") as f:
            json.dump(meta, f, indent=1)
        shutil.rmtree(tmp, ignore_errors=True)
        print(prop, var, "confirmed" if ok else "NOT-CONFIRMED", "detected" if rc == 1 else "rc=%d" % rc, flush=True)
